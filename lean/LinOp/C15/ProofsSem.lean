import LinOp.C15.Proofs
import LinOp.Core.Bridge
import Mathlib.Tactic.Ring
/-! C15 — meaning of the base-class two-operand methods versus the dense torch functions, over any
commutative ring (Mathlib for `ring` and `Finset.sum`). -/
namespace LinOp.C15
set_option linter.unusedSimpArgs false

variable {α : Type} [CommRing α] {n : Nat}

theorem rmatmul_eq (A X : Mat α n n) :
    Mat.transpose (Mat.mul (Mat.transpose A) (Mat.transpose X)) = Mat.mul X A := by
  funext i j
  simp only [Mat.transpose, Mat.mul, tab_eq, sumFin_eq_sum]
  exact Finset.sum_congr rfl fun l _ => mul_comm _ _

/-- A handler that passes `reflectedOK`, called with swapped operands `(op, T)`, computes `f(T, op)`. -/
theorem methSem_reflected (acc : Bool) (b : BinFn) (m : Meth) (h : reflectedOK b m = true) (X A : Mat α n n) :
    methSem acc m A X none = spec b X A none := by
  cases b <;> cases m <;> simp [reflectedOK] at h <;>
    simp only [methSem, spec, rmatmul_eq] <;>
    first
      | rfl
      | (congr 1; funext i j; simp only [madd, smul, had]; ring)

/-- A handler that passes `directOK`, called as `(op, X)`, computes `f(op, X)`. -/
theorem methSem_direct (acc : Bool) (b : BinFn) (m : Meth) (h : directOK b m = true) (A X : Mat α n n) :
    methSem acc m A X none = spec b A X none := by
  cases b <;> cases m <;> simp [directOK] at h <;>
    simp only [methSem, spec] <;>
    first
      | rfl
      | (congr 1; funext i j; simp only [madd, smul, had]; ring)

theorem methSem_direct_alpha (acc : Bool) (b : BinFn) (m : Meth) (h : directAlphaOK acc b m = true) (A X : Mat α n n) (a : α) :
    methSem acc m A X (some a) = spec b A X (some a) := by
  cases acc <;> cases b <;> cases m <;> simp [directAlphaOK] at h <;>
    simp only [methSem, spec, Bool.not_true, Bool.false_eq_true, if_false] <;>
    first
      | rfl
      | (congr 1; funext i j; simp only [madd, smul, had]; ring)

/-- With `alpha=a` a reflected handler passing `reflectedAlphaOK` never returns a wrong value. -/
theorem methSem_reflected_alpha (acc : Bool) (b : BinFn) (m : Meth) (h : reflectedAlphaOK acc b m = true)
    (X A : Mat α n n) (a : α) (hb : b = .add ∨ b = .sub) :
    methSem acc m A X (some a) = spec b X A (some a) ∨ methSem acc m A X (some a) = .error .typeError := by
  cases acc
  · right; simp [methSem]
  · left
    cases b <;> cases m <;> simp [reflectedAlphaOK] at h <;> simp at hb <;>
      simp only [methSem, spec, Bool.not_true, Bool.false_eq_true, if_false] <;>
      (congr 1; funext i j; simp only [madd, smul]; ring)

theorem methSem_reflected_alpha_exact (acc : Bool) (b : BinFn) (m : Meth) (h : reflectedAlphaExact acc b m = true)
    (X A : Mat α n n) (a : α) : methSem acc m A X (some a) = spec b X A (some a) := by
  cases acc <;> cases b <;> cases m <;> simp [reflectedAlphaExact] at h <;>
    simp only [methSem, spec, Bool.not_true, Bool.false_eq_true, if_false] <;>
    (congr 1; funext i j; simp only [madd, smul]; ring)

end LinOp.C15

namespace LinOp.C15
variable {α : Type} [CommRing α] {n : Nat}

theorem evalBinary_second_alpha_exact (T : Tables) (c : String) (e : String × String)
    (h : secondEntryAlphaExact T c e = true) (a0 : Arg) (h0 : a0.plain = true) (X A : Mat α n n) (a : α) :
    ∃ b, BinFn.ofName e.1 = some b ∧ evalBinary T e.1 a0 (.op c) X A (some a) = spec b X A (some a) := by
  simp only [secondEntryAlphaExact, Bool.and_eq_true, beq_iff_eq] at h
  obtain ⟨hl, hm⟩ := h
  cases hr : resolve T.classes c e.2 with
  | none => simp [hr] at hm
  | some d =>
    cases hb : BinFn.ofName e.1 with
    | none => simp [hr, hb] at hm
    | some b =>
      cases hmm : Meth.ofName e.2 with
      | none => simp [hr, hb, hmm] at hm
      | some m =>
        simp only [hr, hb, hmm] at hm
        refine ⟨b, rfl, ?_⟩
        simp only [evalBinary, dispatch_op_second T c e.1 e.2 d a0 [] (some a) h0 (by simp) hl hr, hmm, if_true]
        exact methSem_reflected_alpha_exact _ b m hm X A a

/-! ### from a table-entry check to the meaning of the call -/

theorem evalBinary_second (T : Tables) (c : String) (e : String × String) (h : secondEntryOK T c e = true)
    (a0 : Arg) (h0 : a0.plain = true) (X A : Mat α n n) :
    ∃ b, BinFn.ofName e.1 = some b ∧ evalBinary T e.1 a0 (.op c) X A none = spec b X A none := by
  simp only [secondEntryOK, Bool.and_eq_true, beq_iff_eq] at h
  obtain ⟨hl, hm⟩ := h
  cases hr : resolve T.classes c e.2 with
  | none => simp [hr] at hm
  | some d =>
    cases hb : BinFn.ofName e.1 with
    | none => simp [hr, hb] at hm
    | some b =>
      cases hmm : Meth.ofName e.2 with
      | none => simp [hr, hb, hmm] at hm
      | some m =>
        simp only [hr, hb, hmm] at hm
        refine ⟨b, rfl, ?_⟩
        simp only [evalBinary, dispatch_op_second T c e.1 e.2 d a0 [] none h0 (by simp) hl hr, hmm, if_true]
        exact methSem_reflected _ b m hm X A

theorem evalBinary_second_alpha (T : Tables) (c : String) (e : String × String) (h : secondEntryAlphaOK T c e = true)
    (a0 : Arg) (h0 : a0.plain = true) (X A : Mat α n n) (a : α) (b : BinFn) (hb : BinFn.ofName e.1 = some b)
    (hb' : b = .add ∨ b = .sub) :
    evalBinary T e.1 a0 (.op c) X A (some a) = spec b X A (some a) ∨
      evalBinary T e.1 a0 (.op c) X A (some a) = .error .typeError := by
  simp only [secondEntryAlphaOK, Bool.and_eq_true, beq_iff_eq] at h
  obtain ⟨hl, hm⟩ := h
  cases hr : resolve T.classes c e.2 with
  | none => simp [hr] at hm
  | some d =>
    cases hmm : Meth.ofName e.2 with
    | none => simp [hr, hb, hmm] at hm
    | some m =>
      simp only [hr, hb, hmm] at hm
      simp only [evalBinary, dispatch_op_second T c e.1 e.2 d a0 [] (some a) h0 (by simp) hl hr, hmm, if_true]
      exact methSem_reflected_alpha _ b m hm X A a hb'

theorem evalBinary_first (T : Tables) (c : String) (e : String × String) (h : firstEntryOK T c e = true)
    (a1 : Arg) (h1 : a1.plain = true) (A X : Mat α n n) :
    ∃ b, BinFn.ofName e.1 = some b ∧ evalBinary T e.1 (.op c) a1 A X none = spec b A X none ∧
      ((b = .add ∨ b = .sub) → ∀ a : α, evalBinary T e.1 (.op c) a1 A X (some a) = spec b A X (some a)) := by
  simp only [firstEntryOK, Bool.and_eq_true, beq_iff_eq] at h
  obtain ⟨hl, hm⟩ := h
  cases hr : resolve T.classes c e.2 with
  | none => simp [hr] at hm
  | some d =>
    cases hb : BinFn.ofName e.1 with
    | none => simp [hr, hb] at hm
    | some b =>
      cases hmm : Meth.ofName e.2 with
      | none => simp [hr, hb, hmm] at hm
      | some m =>
        simp only [hr, hb, hmm, Bool.and_eq_true, Bool.or_eq_true, beq_iff_eq] at hm
        obtain ⟨hd, ha⟩ := hm
        refine ⟨b, rfl, ?_, ?_⟩
        · simp only [evalBinary, dispatch_op_first T c e.1 e.2 d [a1] none (by simpa using h1) hl hr, hmm,
            Bool.false_eq_true, if_false]
          exact methSem_direct _ b m hd A X
        · intro hbb a
          simp only [evalBinary, dispatch_op_first T c e.1 e.2 d [a1] (some a) (by simpa using h1) hl hr, hmm,
            Bool.false_eq_true, if_false]
          have : directAlphaOK (acceptsAlpha T d e.2) b m = true := by
            rcases ha with (ha | ha) | ha
            · exact ha
            · rcases hbb with h | h <;> simp [h] at ha
            · rcases hbb with h | h <;> simp [h] at ha
          exact methSem_direct_alpha _ b m this A X a

/-- Two operators, the right one of a strict subclass of the left one's class: second-argument path. -/
theorem evalBinary_op_op_sub (T : Tables) (a b : String) (e : String × String) (h : secondEntryOK T b e = true)
    (hne : a ≠ b) (hsub : isSubclass T.classes b a = true) (hnot : isSubclass T.classes a b = false)
    (X Y : Mat α n n) :
    ∃ f, BinFn.ofName e.1 = some f ∧ evalBinary T e.1 (.op a) (.op b) X Y none = spec f X Y none := by
  simp only [secondEntryOK, Bool.and_eq_true, beq_iff_eq] at h
  obtain ⟨hl, hm⟩ := h
  cases hr : resolve T.classes b e.2 with
  | none => simp [hr] at hm
  | some d =>
    cases hb : BinFn.ofName e.1 with
    | none => simp [hr, hb] at hm
    | some f =>
      cases hmm : Meth.ofName e.2 with
      | none => simp [hr, hb, hmm] at hm
      | some m =>
        simp only [hr, hb, hmm] at hm
        refine ⟨f, rfl, ?_⟩
        simp only [evalBinary, dispatch_op_op_sub T a b e.1 e.2 d none hne hsub hnot hl hr, hmm, if_true]
        exact methSem_reflected _ f m hm X Y

/-- Two operators otherwise: the left operand's class handles the call on the first-argument path. -/
theorem evalBinary_op_op_left (T : Tables) (a b : String) (e : String × String) (h : firstEntryOK T a e = true)
    (hab : a = b ∨ isSubclass T.classes b a = false) (X Y : Mat α n n) :
    ∃ f, BinFn.ofName e.1 = some f ∧ evalBinary T e.1 (.op a) (.op b) X Y none = spec f X Y none := by
  simp only [firstEntryOK, Bool.and_eq_true, beq_iff_eq] at h
  obtain ⟨hl, hm⟩ := h
  cases hr : resolve T.classes a e.2 with
  | none => simp [hr] at hm
  | some d =>
    cases hb : BinFn.ofName e.1 with
    | none => simp [hr, hb] at hm
    | some f =>
      cases hmm : Meth.ofName e.2 with
      | none => simp [hr, hb, hmm] at hm
      | some m =>
        simp only [hr, hb, hmm, Bool.and_eq_true] at hm
        refine ⟨f, rfl, ?_⟩
        simp only [evalBinary, dispatch_op_op_left T a b e.1 e.2 d none hab hl hr, hmm,
          Bool.false_eq_true, if_false]
        exact methSem_direct _ f m hm.1 X Y

end LinOp.C15
