import LinOp.Generated.C15Bodies
/-! C15 — the source text of the `LinearOperator` methods that `LinOp/C15/Rect.lean` mirrors by hand (`isclose`, `_risclose`,
`_isclose` → `closeSpec` / `evalClose`; `div` → `divSem`; `sum` → `sumBranch`, `sumCols`, `sumRows`, `sumAll`).  Written by hand
(copied from /repo at the time the model was written); `table_bodies_pinned` compares it with today's extraction. -/
namespace LinOp.C15

def pinnedBodies : List (String × List String) := [
  ("isclose", ["return self._isclose(other, rtol=rtol, atol=atol, equal_nan=equal_nan)"]),
  ("_risclose", ["return torch.isclose(to_dense(other), to_dense(self), rtol=rtol, atol=atol, equal_nan=equal_nan)"]),
  ("_isclose", ["return torch.isclose(to_dense(self), to_dense(other), rtol=rtol, atol=atol, equal_nan=equal_nan)"]),
  ("div", ["if isinstance(other, ZeroLinearOperator):\n    raise RuntimeError('Attempted to divide by a ZeroLinearOperator (divison by zero)')", "return self.mul(1.0 / other)"]),
  ("sum", ["if dim is None:\n    ones = torch.ones(self.size(-1), 1, dtype=self.dtype, device=self.device)\n    return (self @ ones).sum()", "orig_dim = dim", "if dim < 0:\n    dim = self.dim() + dim", "if dim == self.dim() - 1:\n    ones = torch.ones(self.size(-1), 1, dtype=self.dtype, device=self.device)\n    return (self @ ones).squeeze(-1)\nelif dim == self.dim() - 2:\n    ones = torch.ones(self.size(-2), 1, dtype=self.dtype, device=self.device)\n    return (self.mT @ ones).squeeze(-1)\nelif dim < self.dim():\n    return self._sum_batch(dim)\nelse:\n    raise ValueError('Invalid dim ({}) for LinearOperator of size {}'.format(orig_dim, self.shape))"])]

/-- The statement notes/C15_fix_7.diff inserts into `sum` after the normalisation (a dim below `-ndim` raises). -/
def sumFixStatement : String :=
  "if dim < 0:\n    raise ValueError('Invalid dim ({}) for LinearOperator of size {}'.format(orig_dim, self.shape))"

/-- Body of `sum` with the proposed fix applied. -/
def pinnedSumFixed : List String :=
  match pinnedBodies.lookup "sum" with
  | some (a :: b :: c :: rest) => a :: b :: c :: sumFixStatement :: rest
  | _ => []

end LinOp.C15
