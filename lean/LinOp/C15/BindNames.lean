import LinOp.C15.ProofsBind
/-!
C15 — argument forwarding when the parameter **names differ** between torch and the method
(`torch.transpose(input, dim0, dim1)` → `transpose(self, dim1, dim2)`, `torch.linalg.solve(A, B, *, left=True)` →
`solve(self, right_tensor, left_tensor=None)`, `torch.permute(input, dims)` → `permute(self, *dims)`).

The call `torch.f(op, *pos, **kw)` is bound by torch against `sigT` and — because `__torch_function__` forwards it unchanged —
by Python against the method's `sigM`.  A keyword can only survive **both** bindings if its name is a parameter of both
signatures that neither side already filled positionally (`kwUsable`); every required parameter that was not filled
positionally must be such a keyword.  `onlyPositional` checks, for every possible number of positional values, that this
is impossible unless there are no keywords at all: then every call form that both sides accept is purely positional, and
positional values land by *position* (`bind_positional_values`), so equal position-wise defaults give equal values.
Core Lean only.
-/
namespace LinOp.C15

/-- Names a keyword may have if both signatures are to accept a call with `npos` positional values. -/
def kwUsable (sigM sigT : Sig) (npos : Nat) : List String :=
  (Sig.names (sigM.drop npos)).filter fun k =>
    (Sig.names (sigT.drop npos)).contains k && !((Sig.names (sigT.take npos)).contains k)

/-- Names of the required parameters that `npos` positional values leave unfilled. -/
def reqAfter (sig : Sig) (npos : Nat) : List String := Sig.names ((sig.drop npos).filter fun p => p.dflt.isNone)

/-- With `npos` positional values: either no keyword is usable, or some required parameter of one side cannot be supplied. -/
def noKeywordForm (sigM sigT : Sig) (npos : Nat) : Bool :=
  (kwUsable sigM sigT npos).isEmpty ||
    !((reqAfter sigM npos).all fun k => (kwUsable sigM sigT npos).contains k) ||
    !((reqAfter sigT npos).all fun k => (kwUsable sigM sigT npos).contains k)

/-- Every call form that both signatures accept is purely positional. -/
def onlyPositional (sigM sigT : Sig) : Bool :=
  (List.range (sigM.length + 1)).all fun npos => noKeywordForm sigM sigT npos

theorem mem_names_drop_of_not_take (sig : Sig) (k : Nat) (q : String) (h : q ∈ sig.names)
    (hn : q ∉ Sig.names (sig.take k)) : q ∈ Sig.names (sig.drop k) := by
  have : sig.names = Sig.names (sig.take k) ++ Sig.names (sig.drop k) := by
    simp only [Sig.names, ← List.map_append, List.take_append_drop]
  rw [this] at h
  rcases List.mem_append.1 h with h | h
  · exact absurd h hn
  · exact h

/-- A keyword accepted by both bindings is in `kwUsable`. -/
theorem kw_mem_usable {sigM sigT : Sig} {pos : List String} {kw envM envT : Env}
    (hM : bind sigM pos kw = .ok envM) (hT : bind sigT pos kw = .ok envT) (e : String × String) (he : e ∈ kw) :
    e.1 ∈ kwUsable sigM sigT pos.length := by
  obtain ⟨_, _, hkM, hnM, _, _⟩ := bind_ok hM
  obtain ⟨_, _, hkT, hnT, _, _⟩ := bind_ok hT
  simp only [kwUsable, List.mem_filter, Bool.and_eq_true, List.contains_eq_mem, decide_eq_true_eq, Bool.not_eq_eq_eq_not,
    Bool.not_true, decide_eq_false_iff_not]
  exact ⟨mem_names_drop_of_not_take sigM _ _ (hkM e he) (hnM e he),
    mem_names_drop_of_not_take sigT _ _ (hkT e he) (hnT e he), hnT e he⟩

/-- A required parameter that was not filled positionally was supplied by keyword. -/
theorem req_mem_kw {sig : Sig} {pos : List String} {kw env : Env} (h : bind sig pos kw = .ok env) (q : String)
    (hq : q ∈ reqAfter sig pos.length) : ∃ e ∈ kw, e.1 = q := by
  obtain ⟨_, _, _, _, hreq, _⟩ := bind_ok h
  simp only [reqAfter, Sig.names, List.mem_map, List.mem_filter, Option.isNone_iff_eq_none] at hq
  obtain ⟨p, ⟨hp, hd⟩, rfl⟩ := hq
  refine Classical.byContradiction fun hne => ?_
  apply hreq p hp _ hd
  rw [List.lookup_eq_none_iff]
  intro e he
  have : ¬ e.1 = p.name := fun h' => hne ⟨e, he, h'⟩
  simpa using fun h' : p.name = e.1 => this h'.symm

/-- **Keyword forms never bind on both sides** when `onlyPositional` holds. -/
theorem onlyPositional_kw_nil {sigM sigT : Sig} (h : onlyPositional sigM sigT = true) {pos : List String} {kw envM envT : Env}
    (hM : bind sigM pos kw = .ok envM) (hT : bind sigT pos kw = .ok envT) : kw = [] := by
  have hlen := (bind_ok hM).1
  simp only [onlyPositional, List.all_eq_true, List.mem_range] at h
  have hn := h pos.length (by omega)
  simp only [noKeywordForm, Bool.or_eq_true, List.isEmpty_iff, Bool.not_eq_eq_eq_not, Bool.not_true] at hn
  rcases hn with (hn | hn) | hn
  · cases kw with
    | nil => rfl
    | cons e tl =>
      have := kw_mem_usable hM hT e (by simp)
      rw [hn] at this
      simp at this
  · exfalso
    have : ((reqAfter sigM pos.length).all fun k => (kwUsable sigM sigT pos.length).contains k) = true := by
      simp only [List.all_eq_true, List.contains_eq_mem, decide_eq_true_eq]
      intro q hq
      obtain ⟨e, he, rfl⟩ := req_mem_kw hM q hq
      exact kw_mem_usable hM hT e he
    rw [this] at hn
    cases hn
  · exfalso
    have : ((reqAfter sigT pos.length).all fun k => (kwUsable sigM sigT pos.length).contains k) = true := by
      simp only [List.all_eq_true, List.contains_eq_mem, decide_eq_true_eq]
      intro q hq
      obtain ⟨e, he, rfl⟩ := req_mem_kw hT q hq
      exact kw_mem_usable hM hT e he
    rw [this] at hn
    cases hn

/-- A purely positional call: the values land by position, the rest take the defaults. -/
theorem bind_positional_values {sig : Sig} {pos : List String} {env : Env} (h : bind sig pos [] = .ok env) :
    pos.length ≤ sig.length ∧ env.map (·.2) = pos ++ (sig.drop pos.length).map fun p => p.dflt.getD "" := by
  obtain ⟨hlen, _, _, _, _, rfl⟩ := bind_ok h
  refine ⟨hlen, ?_⟩
  have hl : pos.length ≤ (Sig.names (sig.take pos.length)).length := by
    simp only [Sig.names, List.length_map, List.length_take]; omega
  rw [List.map_append, List.map_snd_zip hl, List.map_map]
  rfl

/-- A keyword that is not a parameter name makes the binding fail (`TypeError: unexpected keyword argument`). -/
theorem bind_unknown_keyword_fails (sig : Sig) (pos : List String) (kw : Env) (e : String × String) (he : e ∈ kw)
    (hn : e.1 ∉ sig.names) : ∃ err, bind sig pos kw = .error err := by
  cases hb : bind sig pos kw with
  | error err => exact ⟨err, rfl⟩
  | ok env => exact absurd ((bind_ok hb).2.2.1 e he) hn

/-- A keyword naming a parameter that a positional value already filled makes the binding fail (`multiple values`). -/
theorem bind_duplicate_fails (sig : Sig) (pos : List String) (kw : Env) (e : String × String) (he : e ∈ kw)
    (hn : e.1 ∈ Sig.names (sig.take pos.length)) : ∃ err, bind sig pos kw = .error err := by
  cases hb : bind sig pos kw with
  | error err => exact ⟨err, rfl⟩
  | ok env => exact absurd hn ((bind_ok hb).2.2.2.1 e he)

end LinOp.C15
