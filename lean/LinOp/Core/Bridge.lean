/-
Bridge from the core-only substrate to Mathlib's `Finset.sum` / `Matrix`.
-/
import LinOp.Core.Basic
import Mathlib.Algebra.BigOperators.Fin
import Mathlib.Data.Matrix.Mul

namespace LinOp
open Matrix

theorem sumFin_eq_sum {α : Type} [AddCommMonoid α] (n : Nat) (f : Fin n → α) :
    sumFin n f = ∑ i, f i := by
  unfold sumFin
  induction n with
  | zero => simp [Fin.foldl_zero]
  | succ n ih =>
    rw [Fin.foldl_succ_last, Fin.sum_univ_castSucc]
    congr 1
    exact ih _

theorem Mat.mul_eq_matrix_mul {α : Type} [NonUnitalNonAssocSemiring α] {n k m : Nat}
    (A : Mat α n k) (B : Mat α k m) :
    Mat.mul A B = (Matrix.of A * Matrix.of B : Matrix _ _ α) := by
  funext i j
  simp [Mat.mul, sumFin_eq_sum, Matrix.mul_apply]

theorem Mat.transpose_eq {α : Type} {n m : Nat} (A : Mat α n m) :
    Mat.transpose A = (Matrix.of A)ᵀ := rfl

end LinOp
