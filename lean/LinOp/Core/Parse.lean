/-
Line-protocol helpers shared by the drivers (no Mathlib).
Scalars travel as `p` or `p/q`; lists as comma-separated; matrices as rows separated by `;`.
-/
namespace LinOp.Parse

def parseRat? (s : String) : Option Rat :=
  match s.splitOn "/" with
  | [p] => p.toInt?.map fun z => (z : Rat)
  | [p, q] => do
      let a ← p.toInt?
      let b ← q.toNat?
      if b = 0 then none else some (mkRat a b)
  | _ => none

def showRat (r : Rat) : String :=
  if r.den = 1 then toString r.num else toString r.num ++ "/" ++ toString r.den

def parseList? {β : Type} (p : String → Option β) (s : String) : Option (List β) :=
  if s = "" || s = "-" then some [] else (s.splitOn ",").mapM p

def parseInts? (s : String) : Option (List Int) := parseList? String.toInt? s
def parseNats? (s : String) : Option (List Nat) := parseList? String.toNat? s
def parseRats? (s : String) : Option (List Rat) := parseList? parseRat? s

def parseMat? (s : String) : Option (Array (Array Rat)) := do
  let rows ← (s.splitOn ";").mapM parseRats?
  pure (rows.map List.toArray).toArray

def showList {β : Type} (f : β → String) (l : List β) : String :=
  if l.isEmpty then "-" else ",".intercalate (l.map f)

def showMat (l : List (List Rat)) : String :=
  ";".intercalate (l.map (showList showRat))

def words (line : String) : List String :=
  (line.splitOn " ").filter (· ≠ "")

/-- Read stdin line by line, feed each to `step`, print its output. -/
partial def loop {σ : Type} (h : IO.FS.Stream) (s : σ) (step : σ → String → σ × String) : IO Unit := do
  let line ← h.getLine
  if line.isEmpty then return ()
  let line := line.trimAscii.toString
  let (s', out) := step s line
  IO.println out
  loop h s' step

end LinOp.Parse
