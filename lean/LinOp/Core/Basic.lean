/-
Core substrate (no Mathlib): finite sums, memoising tabulation of index functions,
matrices as index functions `Fin n → Fin m → α` (definitionally Mathlib's `Matrix`).
-/
namespace LinOp

/-- Left-to-right finite sum, the executable counterpart of `∑ i : Fin n, f i`. -/
def sumFin {α : Type} [Add α] [Zero α] (n : Nat) (f : Fin n → α) : α :=
  Fin.foldl n (fun acc i => acc + f i) 0

/-- Memoising identity on vectors: evaluates `f` once per index. -/
def tab1 {α : Type} {n : Nat} (f : Fin n → α) : Fin n → α :=
  let v := Vector.ofFn f
  fun i => v[i.1]'i.2

@[simp] theorem tab1_eq {α : Type} {n : Nat} (f : Fin n → α) : tab1 f = f := by
  funext i; simp [tab1]

/-- Memoising identity on matrices. -/
def tab {α : Type} {n m : Nat} (f : Fin n → Fin m → α) : Fin n → Fin m → α :=
  let v := Vector.ofFn (fun i => Vector.ofFn (f i))
  fun i j => (v[i.1]'i.2)[j.1]'j.2

@[simp] theorem tab_eq {α : Type} {n m : Nat} (f : Fin n → Fin m → α) : tab f = f := by
  funext i j; simp [tab]

abbrev Mat (α : Type) (n m : Nat) := Fin n → Fin m → α

namespace Mat
variable {α : Type}

def mul [Add α] [Zero α] [Mul α] {n k m : Nat} (A : Mat α n k) (B : Mat α k m) : Mat α n m :=
  tab fun i j => sumFin k fun l => A i l * B l j

def transpose {n m : Nat} (A : Mat α n m) : Mat α m n := fun i j => A j i

def add [Add α] {n m : Nat} (A B : Mat α n m) : Mat α n m := fun i j => A i j + B i j

def diag [Zero α] {n : Nat} (d : Fin n → α) : Mat α n n := fun i j => if i = j then d i else 0

def one [Zero α] [One α] {n : Nat} : Mat α n n := fun i j => if i = j then 1 else 0

def toLists {n m : Nat} (A : Mat α n m) : List (List α) :=
  (List.finRange n).map fun i => (List.finRange m).map fun j => A i j

def ofArrays [Inhabited α] (n m : Nat) (a : Array (Array α)) : Mat α n m :=
  fun i j => (a[i.1]!)[j.1]!

end Mat
end LinOp
