import LinOp.C20.Model
import LinOp.C20.ProofsToeplitz

/-!
C20 — proofs about the interpolation and sparse kernels of `LinOp.C20.Model`:
`left_interp`, `left_t_interp` (summing matrix + dsmm), `sparse_eye`, `make_sparse_from_indices_and_values`,
`to_sparse`, and the flat / unflat index maps.
-/
namespace LinOp.C20

open Finset

/-! ## flat / unflat -/

theorem flat_unflat_modI (shape : List Nat) (p : Nat) : flat shape (unflat shape p) = p % prod shape := by
  induction shape with
  | nil => simp [flat, prod, Nat.mod_one]
  | cons d ds ih =>
    simp only [flat, unflat, prod, ih]
    rw [Nat.mul_comm d (prod ds), Nat.mod_mul, Nat.add_comm, Nat.mul_comm]

/-- unflat is injective on the box (row-major digits determine the flat position) -/
theorem unflat_inj (shape : List Nat) (p q : Nat) (hp : p < prod shape) (hq : q < prod shape)
    (h : unflat shape p = unflat shape q) : p = q := by
  have h1 := flat_unflat_modI shape p
  have h2 := flat_unflat_modI shape q
  rw [Nat.mod_eq_of_lt hp] at h1
  rw [Nat.mod_eq_of_lt hq] at h2
  rw [← h1, ← h2, h]

section interp

variable {α : Type} [CommRing α]

/-! ## generic facts about `sumN`, `densify`, `spmm` -/

theorem sumN_congr (n : Nat) (f g : Nat → α) (h : ∀ i, i < n → f i = g i) : sumN n f = sumN n g := by
  rw [sumN_eq_sum, sumN_eq_sum]
  exact Finset.sum_congr rfl fun i hi => h i (Finset.mem_range.1 hi)

/-- sumN over a product range -/
theorem sumN_mul (D K : Nat) (f : Nat → α) :
    sumN (D * K) f = sumN D fun d => sumN K fun k => f (d * K + k) := by
  simp only [sumN_eq_sum]
  induction D with
  | zero => simp
  | succ D ih => rw [Nat.succ_mul, Finset.sum_range_add, ih, Finset.sum_range_succ]

theorem densify_cons (e : List Nat × α) (t : Ents α) (idx : List Nat) :
    densify (e :: t) idx = (if e.1 = idx then e.2 else 0) + densify t idx := by
  cases e; rfl

theorem spmm_cons (e : List Nat × α) (t : Ents α) (d : Nat → Nat → α) (i c : Nat) :
    spmm (e :: t) d i c = (if e.1.getD 0 0 = i then e.2 * d (e.1.getD 1 0) c else 0) + spmm t d i c := by
  cases e; rfl

theorem densify_append (a b : Ents α) (idx : List Nat) :
    densify (a ++ b) idx = densify a idx + densify b idx := by
  induction a with
  | nil => simp [densify]
  | cons e t ih => simp only [List.cons_append, densify_cons, ih, add_assoc]

theorem spmm_append (a b : Ents α) (d : Nat → Nat → α) (i c : Nat) :
    spmm (a ++ b) d i c = spmm a d i c + spmm b d i c := by
  induction a with
  | nil => simp [spmm]
  | cons e t ih => simp only [List.cons_append, spmm_cons, ih, add_assoc]

theorem densify_range_map (n : Nat) (f : Nat → List Nat × α) (idx : List Nat) :
    densify ((List.range n).map f) idx = sumN n fun p => if (f p).1 = idx then (f p).2 else 0 := by
  induction n with
  | zero => simp [densify, sumN]
  | succ n ih =>
    rw [List.range_succ, List.map_append, densify_append, ih, sumN]
    congr 1
    simp [densify_cons, densify]

theorem spmm_range_map (n : Nat) (f : Nat → List Nat × α) (d : Nat → Nat → α) (i c : Nat) :
    spmm ((List.range n).map f) d i c =
      sumN n fun p => if (f p).1.getD 0 0 = i then (f p).2 * d ((f p).1.getD 1 0) c else 0 := by
  induction n with
  | zero => simp [spmm, sumN]
  | succ n ih =>
    rw [List.range_succ, List.map_append, spmm_append, ih, sumN]
    congr 1
    simp [spmm_cons, spmm]

/-- dropping entries whose value is 0 does not change the dense meaning -/
theorem densify_filter [DecidableEq α] (l : Ents α) (idx : List Nat) :
    densify (l.filter fun e => e.2 ≠ 0) idx = densify l idx := by
  induction l with
  | nil => rfl
  | cons e t ih =>
    by_cases h : e.2 = 0
    · rw [List.filter_cons_of_neg (by simp [h]), ih, densify_cons, h]
      simp
    · rw [List.filter_cons_of_pos (by simp [h]), densify_cons, densify_cons, ih]

theorem densify_filter_map [DecidableEq α] (l : List (List Nat)) (g : List Nat → α) (idx : List Nat) :
    densify ((l.filter fun i => g i ≠ 0).map fun i => (i, g i)) idx
      = densify (l.map fun i => (i, g i)) idx := by
  induction l with
  | nil => rfl
  | cons a t ih =>
    by_cases h : g a = 0
    · rw [List.filter_cons_of_neg (by simp [h]), ih, List.map_cons, densify_cons]
      simp [h]
    · rw [List.filter_cons_of_pos (by simp [h]), List.map_cons, List.map_cons, densify_cons,
        densify_cons, ih]

/-- the all-zero special case (one explicit zero entry) does not change the dense meaning either -/
theorem densify_nz_or_dummy [DecidableEq α] (l : Ents α) (z idx : List Nat) :
    densify (if (l.filter fun e => e.2 ≠ 0).isEmpty then [(z, (0 : α))] else l.filter fun e => e.2 ≠ 0) idx
      = densify l idx := by
  split
  next h =>
    rw [List.isEmpty_iff] at h
    rw [← densify_filter l idx, h]
    simp [densify]
  next h => exact densify_filter l idx

/-! ## interpolation -/

/-- left_interp = (W x)_r, W the dense interpolation matrix (duplicate indices add) -/
theorem left_interp_def (n K : Nat) (idx : Nat → Nat → Nat) (val : Nat → Nat → α) (x : Nat → α) (r : Nat)
    (h : ∀ k, k < K → idx r k < n) :
    leftInterpCore K idx val x r = sumN n fun c => interpW K idx val r c * x c := by
  simp only [leftInterpCore, interpW, sumN_eq_sum, Finset.sum_mul]
  rw [Finset.sum_comm]
  apply Finset.sum_congr rfl
  intro k hk
  rw [Finset.mem_range] at hk
  simp only [ite_mul, zero_mul]
  rw [Finset.sum_ite_eq, if_pos (Finset.mem_range.2 (h k hk)), mul_comm]

/-- contract of torch.dsmm holds for the entry-list model: spmm = densify-then-dense-matmul -/
theorem spmm_def (ents : Ents α) (d : Nat → Nat → α) (i c ncols : Nat)
    (h : ∀ e ∈ ents, e.1.length = 2 ∧ e.1.getD 1 0 < ncols) :
    spmm ents d i c = sumN ncols fun j => densify ents [i, j] * d j c := by
  induction ents with
  | nil => simp [spmm, densify, sumN_eq_sum]
  | cons e t ih =>
    have ht : ∀ e ∈ t, e.1.length = 2 ∧ e.1.getD 1 0 < ncols :=
      fun e he => h e (List.mem_cons_of_mem _ he)
    obtain ⟨hlen, hcol⟩ := h e List.mem_cons_self
    obtain ⟨ix, v⟩ := e
    obtain ⟨a, b, rfl⟩ := List.length_eq_two.mp hlen
    simp only [List.getD_cons_zero, List.getD_cons_succ] at hcol
    rw [spmm_cons, ih ht]
    simp only [densify_cons, sumN_eq_sum, add_mul, Finset.sum_add_distrib]
    congr 1
    simp only [List.getD_cons_zero, List.getD_cons_succ, List.cons.injEq, and_true]
    by_cases hai : a = i
    · subst hai
      simp only [true_and, if_true, ite_mul, zero_mul]
      rw [Finset.sum_ite_eq, if_pos (Finset.mem_range.2 hcol)]
    · simp [hai]

/-- left_t_interp = (Wᵀ x)_o : scatter-add through the summing matrix, duplicates add -/
theorem left_t_interp_def (D K : Nat) (idx : Nat → Nat → Nat) (val : Nat → Nat → α) (x : Nat → α) (o : Nat) :
    leftTInterpCore D K idx val x o = sumN D fun d => interpW K idx val d o * x d := by
  unfold leftTInterpCore summingEnts
  rw [spmm_range_map, sumN_mul]
  apply sumN_congr
  intro d _
  unfold interpW
  rw [sumN_eq_sum, sumN_eq_sum, Finset.sum_mul]
  apply Finset.sum_congr rfl
  intro k hk
  rw [Finset.mem_range] at hk
  have hK : 0 < K := by omega
  have h1 : (d * K + k) / K = d := by
    rw [Nat.mul_comm, Nat.mul_add_div hK, Nat.div_eq_of_lt hk, Nat.add_zero]
  have h2 : (d * K + k) % K = k := by
    rw [Nat.mul_comm, Nat.mul_add_mod, Nat.mod_eq_of_lt hk]
  simp only [List.getD_cons_zero, List.getD_cons_succ, h1, h2]
  split_ifs <;> ring

/-! ## sparse constructors -/

theorem sparse_eye_def (n i j : Nat) (hi : i < n) (hj : j < n) :
    densify (sparseEye (α := α) n).ents [i, j] = if i = j then 1 else 0 := by
  unfold sparseEye
  simp only []
  rw [densify_range_map, sumN_eq_sum]
  simp only [List.cons.injEq, and_true]
  by_cases hij : i = j
  · subst hij
    rw [if_pos rfl, Finset.sum_eq_single i]
    · simp
    · intro b _ hb
      rw [if_neg (by omega)]
    · intro hni
      exact absurd (Finset.mem_range.2 hi) hni
  · rw [if_neg hij]
    apply Finset.sum_eq_zero
    intro b _
    rw [if_neg (by omega)]

/-- make_sparse: zero dropping and the all-zero special case do not change the dense meaning; the
entry list is exactly one entry per flattened position p -/
theorem make_sparse_def [DecidableEq α] (bs : List Nat) (T K : Nat) (idxf : Nat → Nat) (valf : Nat → α)
    (numRows : Nat) (bidx : List Nat) (i t : Nat) (hb : bidx.length = bs.length) :
    densify (makeSparse bs T K idxf valf numRows).ents (bidx ++ [i, t]) =
      sumN (prod bs * T * K) fun p =>
        if (unflat (bs ++ [T, K]) p).take bs.length = bidx ∧ idxf p = i ∧ (p / K) % T = t then valf p else 0 := by
  have _ := hb
  unfold makeSparse
  simp only []
  rw [densify_nz_or_dummy, densify_range_map]
  apply sumN_congr
  intro p _
  have hiff : ((unflat (bs ++ [T, K]) p).take bs.length ++ [idxf p, (p / K) % T] = bidx ++ [i, t]) ↔
      ((unflat (bs ++ [T, K]) p).take bs.length = bidx ∧ idxf p = i ∧ (p / K) % T = t) := by
    constructor
    · intro h
      obtain ⟨h1, h2⟩ := List.append_inj' h rfl
      simp only [List.cons.injEq, and_true] at h2
      exact ⟨h1, h2.1, h2.2⟩
    · rintro ⟨h1, h2, h3⟩
      rw [h1, h2, h3]
  simp only [hiff]

theorem make_sparse_shape [DecidableEq α] (bs : List Nat) (T K : Nat) (idxf : Nat → Nat) (valf : Nat → α)
    (numRows : Nat) :
    (makeSparse bs T K idxf valf numRows).shape = bs ++ [numRows, T] := rfl

/-- unbatched corollary in the familiar form: densify(make_sparse)[i, t] = Σ_k [idx[t,k] = i] val[t,k] = W[t, i] -/
theorem make_sparse_unbatched [DecidableEq α] (T K : Nat) (hK : 0 < K) (idx : Nat → Nat → Nat)
    (val : Nat → Nat → α) (numRows i t : Nat) (ht : t < T) :
    densify (makeSparse [] T K (fun p => idx (p / K) (p % K)) (fun p => val (p / K) (p % K)) numRows).ents [i, t]
      = interpW K idx val t i := by
  have h := make_sparse_def [] T K (fun p => idx (p / K) (p % K)) (fun p => val (p / K) (p % K))
    numRows [] i t rfl
  simp only [List.nil_append, prod, Nat.one_mul, List.length_nil, List.take_zero, true_and] at h
  rw [h, sumN_mul]
  unfold interpW
  simp only [sumN_eq_sum]
  rw [Finset.sum_eq_single t]
  · apply Finset.sum_congr rfl
    intro k hk
    rw [Finset.mem_range] at hk
    have h1 : (t * K + k) / K = t := by
      rw [Nat.mul_comm, Nat.mul_add_div hK, Nat.div_eq_of_lt hk, Nat.add_zero]
    have h2 : (t * K + k) % K = k := by
      rw [Nat.mul_comm, Nat.mul_add_mod, Nat.mod_eq_of_lt hk]
    simp only [h1, h2, Nat.mod_eq_of_lt ht, and_true]
  · intro d hd hdt
    rw [Finset.mem_range] at hd
    apply Finset.sum_eq_zero
    intro k hk
    rw [Finset.mem_range] at hk
    have h1 : (d * K + k) / K = d := by
      rw [Nat.mul_comm, Nat.mul_add_div hK, Nat.div_eq_of_lt hk, Nat.add_zero]
    rw [h1, Nat.mod_eq_of_lt hd, if_neg (fun hc => hdt hc.2)]
  · intro hnt
    exact absurd (Finset.mem_range.2 ht) hnt

/-- to_sparse keeps the dense meaning (zero dropping, all-zero special case) -/
theorem to_sparse_roundtrip [DecidableEq α] (d : Tn α) (idx : List Nat) (p : Nat) (hp : p < prod d.shape)
    (hidx : idx = unflat d.shape p)
    (hinj : ∀ q, q < prod d.shape → unflat d.shape q = unflat d.shape p → q = p) :
    densify (toSparse d).ents idx = d.get idx := by
  have hall : densify ((allIdx d.shape).map fun i => (i, d.get i)) idx = d.get idx := by
    unfold allIdx
    rw [List.map_map, densify_range_map, sumN_eq_sum, Finset.sum_eq_single p]
    · simp only [Function.comp_apply]
      rw [if_pos hidx.symm, hidx]
    · intro q hq hqp
      rw [Finset.mem_range] at hq
      simp only [Function.comp_apply]
      rw [if_neg]
      intro hc
      exact hqp (hinj q hq (hc.trans hidx))
    · intro hnp
      exact absurd (Finset.mem_range.2 hp) hnp
  unfold toSparse
  simp only []
  split
  next h =>
    rw [List.isEmpty_iff] at h
    rw [← hall, ← densify_filter_map, h]
    simp [densify]
  next h =>
    simp only []
    rw [densify_filter_map, hall]

end interp

end LinOp.C20
