import LinOp.C20.ProofsBdsmm
import LinOp.C20.ProofsExtra
/-! C20 (extension session 5) — `bdsmm` with DIFFERENT batch shapes on the two sides:

* `blockdiag_batch_core`: the block-diagonal flattening + flattened dense operand of the first branch, for ANY flattened
  dense operand (factored out of `bdsmm_batched_def`);
* `bdsmm_bcast_def`: the WHOLE first branch for any sparse batch shape / any dense batch shape — the result at batch index
  `b` is `S'[b] · D[restrict b]` where `S'` is `sparse_repeat`'s output with the repeat sizes the code computes
  (`bdsmmReps`) and the dense operand is read with `expand` semantics;
* `bdsmm_bcast_dense_def`: sparse batch = output batch, dense batch ANY shape that broadcasts to it (extra size-1 dims,
  fewer dims, none): `out[b] = S[b] · D[restrict b]`;
* `dsmm_backward_batched_def`: `DSMM.backward` for a batched sparse operand = `S[b]ᵀ · grad[b]`.
-/
namespace LinOp.C20

open BdsmmAux

/-- the repeat sizes `bdsmm` passes to `sparse_repeat`: `output_size // sparse_size` over the right-aligned shapes -/
def bdsmmReps (sshape out : List Nat) : List Nat :=
  List.zipWith (fun o z => o / z) (out.take (out.length - 2) ++ sshape.drop (sshape.length - 2))
    (List.replicate (out.length - sshape.length) 1 ++ sshape)

section
variable {α : Type} [CommRing α]

/-- entries of a batched sparse tensor of shape `bshape ++ [m, n]` lie inside the box -/
def BatchedEntsOk (ents : Ents α) (bshape : List Nat) (m n : Nat) : Prop :=
  ∀ e ∈ ents, e.1.length = bshape.length + 2 ∧ InBox (e.1.take bshape.length) bshape ∧
    e.1.getD bshape.length 0 < m ∧ e.1.getD (bshape.length + 1) 0 < n

/-- the flattened product of the first branch of `bdsmm`, for ANY flattened dense operand `dense2`:
row `flat b · m + i` of `blockdiag(S) · dense2` is `Σ_j S[b, i, j] · dense2[flat b · n + j]`. -/
theorem blockdiag_batch_core (ents : Ents α) (bshape : List Nat) (m n : Nat) (dense2 : Nat → Nat → α)
    (hents : BatchedEntsOk ents bshape m n)
    (b : List Nat) (hbox : InBox b bshape) (i c : Nat) (hi : i < m) :
    spmm (blockDiagEnts bshape m n ents) dense2 (flat bshape b * m + i) c
      = sumN n fun j => densify ents (b ++ [i, j]) * dense2 (flat bshape b * n + j) c := by
  have hlen := inBox_length hbox
  have hk : bshape.length = b.length := hlen.symm
  rw [blockdiag_spmm bshape m n ents _ (flat bshape b) i c hi (fun e he => ⟨(hents e he).2.2.1, (hents e he).2.2.2⟩)]
  rw [spmm_def _ _ i c n]
  · apply sumN_congr
    intro j hj
    congr 1
    apply SparseAux.densify_filter_map ents
      (fun e => decide (flat bshape (e.1.take bshape.length) = flat bshape b ∧ e.1.getD bshape.length 0 = i))
      (fun l => [l.getD bshape.length 0, l.getD (bshape.length + 1) 0]) [i, j] (b ++ [i, j])
    intro e he
    obtain ⟨hl, hbx, _, _⟩ := hents e he
    rw [decide_eq_true_eq]
    constructor
    · rintro ⟨⟨hf, hrow⟩, hg⟩
      have htk : e.1.take bshape.length = b := by
        rw [← unflat_flat hbx, hf, unflat_flat hbox]
      have hg' : e.1.getD bshape.length 0 = i ∧ e.1.getD (bshape.length + 1) 0 = j := by
        simpa using hg
      rw [eq_take_app2 e.1 bshape.length hl, htk, hg'.1, hg'.2]
    · intro heq
      rw [heq, hk, app2_take, app2_get0, app2_get1]
      exact ⟨⟨rfl, rfl⟩, rfl⟩
  · intro e he
    simp only [List.mem_map, List.mem_filter] at he
    obtain ⟨e0, ⟨he0, _⟩, rfl⟩ := he
    exact ⟨rfl, by simpa using (hents e0 he0).2.2.2⟩

/-- `bdsmm`, first branch, ANY sparse batch shape and ANY dense batch shape (the shapes only have to satisfy
`_matmul_broadcast_shape`): the result at batch index `b` of the broadcast batch shape is
`S'[b] · D[restrict b]`, `S' = sparse_repeat(sparse, *repeat_sizes)` with the repeat sizes the code computes and the
dense operand read with `expand` semantics. -/
theorem bdsmm_bcast_def (s : Sp α) (d : Tn α) (bshape db : List Nat) (m n p : Nat)
    (hsl : s.shape.length > 2) (hd : d.shape = db ++ [n, p])
    (hmb : matmulBroadcastShape s.shape d.shape = .ok (bshape ++ [m, p]))
    (hs' : (sparseRepeat true s (bdsmmReps s.shape (bshape ++ [m, p]))).shape = bshape ++ [m, n])
    (hents : BatchedEntsOk (sparseRepeat true s (bdsmmReps s.shape (bshape ++ [m, p]))).ents bshape m n)
    (b : List Nat) (hbox : InBox b bshape) (i c : Nat) (hi : i < m) (hn : 0 < n) :
    ∃ t, bdsmm true s d = .ok t ∧ t.shape = bshape ++ [m, p] ∧
      t.get (b ++ [i, c]) = sumN n fun j =>
        densify (sparseRepeat true s (bdsmmReps s.shape (bshape ++ [m, p]))).ents (b ++ [i, j])
          * d.get (restrictIdx db b ++ [j, c]) := by
  have hlen := inBox_length hbox
  have hk : bshape.length = b.length := hlen.symm
  refine ⟨⟨bshape ++ [m, p], fun o => spmm (blockDiagEnts bshape m n
        (sparseRepeat true s (bdsmmReps s.shape (bshape ++ [m, p]))).ents)
      (fun q c => d.get (restrictIdx db (unflat bshape (q / n)) ++ [q % n, c]))
      (flat bshape (o.take bshape.length) * m + o.getD bshape.length 0) (o.getD (bshape.length + 1) 0)⟩, ?_, rfl, ?_⟩
  · have hreps : List.zipWith (fun o z => o / z) (bshape ++ s.shape.drop (s.shape.length - 2))
        (List.replicate ((bshape ++ [m, p]).length - s.shape.length) 1 ++ s.shape)
          = bdsmmReps s.shape (bshape ++ [m, p]) := by
      simp only [bdsmmReps, app2_length_sub, app2_take]
    rw [hd] at hmb
    simp only [bdsmm, hsl, if_true, hmb, hreps, hs', hd, app2_length_sub, app2_take, app2_get0, app2_get1]
  · show spmm (blockDiagEnts bshape m n _) _
        (flat bshape ((b ++ [i, c]).take bshape.length) * m + (b ++ [i, c]).getD bshape.length 0)
        ((b ++ [i, c]).getD (bshape.length + 1) 0) = _
    rw [hk, app2_get0, app2_get1, app2_take]
    rw [blockdiag_batch_core _ bshape m n _ hents b hbox i c hi]
    apply sumN_congr
    intro j hj
    congr 1
    show d.get (restrictIdx db (unflat bshape ((flat bshape b * n + j) / n)) ++ [(flat bshape b * n + j) % n, c]) = _
    rw [Nat.mul_comm (flat bshape b) n, Nat.mul_add_div hn, Nat.mul_add_mod,
      Nat.div_eq_of_lt hj, Nat.mod_eq_of_lt hj, Nat.add_zero, unflat_flat hbox]

/-- the repeat sizes are all `≤ 1` when the sparse operand already has the output batch shape -/
theorem bdsmmReps_self (bshape : List Nat) (m n p : Nat) :
    bdsmmReps (bshape ++ [m, n]) (bshape ++ [m, p])
      = List.zipWith (fun o z => o / z) (bshape ++ [m, n]) (bshape ++ [m, n]) := by
  simp [bdsmmReps]

/-- `bdsmm`, sparse operand with the full output batch shape, dense operand of ANY batch shape that broadcasts to it
(fewer dims, size-1 dims, no batch): `out[b] = S[b] · D[restrict b]`.  Generalises `bdsmm_batched_def`
(`db = bshape`) and `bdsmm_batched_dense2d_def` (`db = []`). -/
theorem bdsmm_bcast_dense_def (s : Sp α) (d : Tn α) (bshape db : List Nat) (m n p : Nat)
    (hb : bshape ≠ []) (hs : s.shape = bshape ++ [m, n]) (hd : d.shape = db ++ [n, p])
    (hmb : matmulBroadcastShape (bshape ++ [m, n]) (db ++ [n, p]) = .ok (bshape ++ [m, p]))
    (hents : BatchedEntsOk s.ents bshape m n)
    (b : List Nat) (hbox : InBox b bshape) (i c : Nat) (hi : i < m) (hn : 0 < n) :
    ∃ t, bdsmm true s d = .ok t ∧ t.shape = bshape ++ [m, p] ∧
      t.get (b ++ [i, c]) = sumN n fun j => densify s.ents (b ++ [i, j]) * d.get (restrictIdx db b ++ [j, c]) := by
  have hrep : sparseRepeat true s (bdsmmReps s.shape (bshape ++ [m, p])) = s := by
    rw [hs, bdsmmReps_self, ← hs]
    exact sparseRepeat_self_div true s
  have h := bdsmm_bcast_def s d bshape db m n p (by rw [hs]; exact app2_length_gt _ _ _ hb) hd
    (by rw [hs, hd]; exact hmb) (by rw [hrep]; exact hs) (by rw [hrep]; exact hents) b hbox i c hi hn
  rw [hrep] at h
  exact h

/-! ## batched transpose and `DSMM.backward` -/

theorem densify_transpose_batched (nb : Nat) (ents : Ents α) (b : List Nat) (i j : Nat) (hb : b.length = nb)
    (h : ∀ e ∈ ents, e.1.length = nb + 2) :
    densify (transposeEnts nb ents) (b ++ [j, i]) = densify ents (b ++ [i, j]) := by
  induction ents with
  | nil => rfl
  | cons e t ih =>
    have he := h e List.mem_cons_self
    have ih' := ih (fun e' he' => h e' (List.mem_cons_of_mem _ he'))
    obtain ⟨ix, v⟩ := e
    have he : ix.length = nb + 2 := he
    simp only [transposeEnts, List.map_cons, densify] at ih' ⊢
    rw [ih']
    congr 1
    have hix := eq_take_app2 ix nb he
    have hl : (ix.take nb).length = b.length := by rw [List.length_take, hb]; omega
    by_cases hab : ix.take nb = b ∧ ix.getD nb 0 = i ∧ ix.getD (nb + 1) 0 = j
    · obtain ⟨h1, h2, h3⟩ := hab
      rw [if_pos (by rw [h1, h2, h3]), if_pos (by rw [hix, h1, h2, h3])]
    · have n1 : ¬ (ix.take nb ++ [ix.getD (nb + 1) 0, ix.getD nb 0] = b ++ [j, i]) := by
        intro hh
        obtain ⟨q1, q2⟩ := List.append_inj hh hl
        simp only [List.cons.injEq, and_true] at q2
        exact hab ⟨q1, q2.2, q2.1⟩
      have n2 : ¬ (ix = b ++ [i, j]) := by
        intro hh
        apply hab
        rw [hh, ← hb]
        exact ⟨app2_take _ _ _, app2_get0 _ _ _, app2_get1 _ _ _⟩
      rw [if_neg n1, if_neg n2]

/-- `DSMM.backward` for a batched sparse operand and a cotangent of the same batch shape: the gradient w.r.t. the dense
operand is `S[b]ᵀ · grad[b]` for every batch index (every batch shape). -/
theorem dsmm_backward_batched_def (s : Sp α) (g : Tn α) (bshape : List Nat) (m n p : Nat)
    (hb : bshape ≠ []) (hs : s.shape = bshape ++ [m, n]) (hg : g.shape = bshape ++ [m, p])
    (hents : BatchedEntsOk s.ents bshape m n)
    (b : List Nat) (hbox : InBox b bshape) (j c : Nat) (hj : j < n) :
    ∃ t, dsmmBackward true s g = .ok t ∧ t.shape = bshape ++ [n, p] ∧
      t.get (b ++ [j, c]) = sumN m fun i => densify s.ents (b ++ [i, j]) * g.get (b ++ [i, c]) := by
  have hlen := inBox_length hbox
  have hT : BatchedEntsOk (transposeEnts bshape.length s.ents) bshape n m := by
    intro e he
    simp only [transposeEnts, List.mem_map] at he
    obtain ⟨e0, he0, rfl⟩ := he
    obtain ⟨h1, h2, h3, h4⟩ := hents e0 he0
    have hl : (e0.1.take bshape.length).length = bshape.length := by rw [List.length_take]; omega
    have t1 := app2_take (e0.1.take bshape.length) (e0.1.getD (bshape.length + 1) 0) (e0.1.getD bshape.length 0)
    have t2 := app2_get0 (e0.1.take bshape.length) (e0.1.getD (bshape.length + 1) 0) (e0.1.getD bshape.length 0)
    have t3 := app2_get1 (e0.1.take bshape.length) (e0.1.getD (bshape.length + 1) 0) (e0.1.getD bshape.length 0)
    rw [hl] at t1 t2 t3
    refine ⟨?_, ?_, ?_, ?_⟩
    · show (e0.1.take bshape.length ++ [e0.1.getD (bshape.length + 1) 0, e0.1.getD bshape.length 0]).length = _
      simp [hl]
    · show InBox ((e0.1.take bshape.length ++ [e0.1.getD (bshape.length + 1) 0, e0.1.getD bshape.length 0]).take bshape.length) bshape
      rw [t1]; exact h2
    · show (e0.1.take bshape.length ++ [e0.1.getD (bshape.length + 1) 0, e0.1.getD bshape.length 0]).getD bshape.length 0 < n
      rw [t2]; exact h4
    · show (e0.1.take bshape.length ++ [e0.1.getD (bshape.length + 1) 0, e0.1.getD bshape.length 0]).getD (bshape.length + 1) 0 < m
      rw [t3]; exact h3
  have h := bdsmm_batched_def ⟨bshape ++ [n, m], transposeEnts bshape.length s.ents⟩ g bshape n m p hb rfl hg hT b hbox j c hj
  obtain ⟨t, ht, hsh, hget⟩ := h
  refine ⟨t, ?_, hsh, ?_⟩
  · simp only [dsmmBackward, hs, app2_length_sub, app2_take, app2_get0, app2_get1]
    exact ht
  · rw [hget]
    apply sumN_congr
    intro i _
    congr 1
    exact densify_transpose_batched bshape.length s.ents b i j hlen (fun e he => (hents e he).1)

end
end LinOp.C20
