import LinOp.C20.Model
import LinOp.C20.ProofsToeplitz
import Mathlib.Algebra.Order.Field.Basic
import Mathlib.Algebra.Order.AbsoluteValue.Basic
import Mathlib.LinearAlgebra.Matrix.NonsingularInverse
import Mathlib.Tactic.Ring
import Mathlib.Tactic.Linarith
/-!
C20 — helper proofs: permutations, stable QR jitter, back substitution, Moore–Penrose conditions.
-/
namespace LinOp.C20

open Finset

section perm
variable {α : Type} [CommRing α]

theorem apply_perm_def (m n : Nat) (K : M α) (l r : Nat → Nat) (i j : Nat) (hl : l i < m) (hr : r j < n) :
    applyPermCore K l r i j =
      sumN m fun a => sumN n fun b => (if l i = a then 1 else 0) * K a b * (if r j = b then 1 else 0) := by
  simp only [sumN_eq_sum, applyPermCore]
  rw [Finset.sum_eq_single (l i)]
  · rw [Finset.sum_eq_single (r j)]
    · simp
    · intro b _ hb
      simp [Ne.symm hb]
    · intro h
      exact absurd (Finset.mem_range.mpr hr) h
  · intro a _ ha
    simp [Ne.symm ha]
  · intro h
    exact absurd (Finset.mem_range.mpr hl) h

end perm

theorem scatterLoop_inj (n : Nat) (p : Nat → Nat) (res : Nat → Nat)
    (hinj : ∀ a b, a < n → b < n → p a = p b → a = b) :
    ∀ m, m ≤ n → ∀ i, i < m → scatterLoop p res m (p i) = i := by
  intro m
  induction m with
  | zero => intro _ i hi; omega
  | succ m ih =>
    intro hm i hi
    simp only [scatterLoop]
    by_cases h : p i = p m
    · rw [if_pos h]
      exact (hinj i m (by omega) (by omega) h).symm
    · rw [if_neg h]
      have : i ≠ m := fun e => h (by rw [e])
      exact ih (by omega) i (by omega)

theorem inverse_perm_def (n : Nat) (p : Nat → Nat)
    (hinj : ∀ a b, a < n → b < n → p a = p b → a = b) (i : Nat) (hi : i < n) :
    inversePermCore n p (p i) = i :=
  scatterLoop_inj n p _ hinj n (Nat.le_refl n) i hi

theorem inverse_perm_right (n : Nat) (p : Nat → Nat)
    (hinj : ∀ a b, a < n → b < n → p a = p b → a = b) (a : Nat) (hsurj : ∃ i, i < n ∧ p i = a) :
    p (inversePermCore n p a) = a := by
  obtain ⟨i, hi, rfl⟩ := hsurj
  rw [inverse_perm_def n p hinj i hi]

section qr
variable {α : Type} [Field α] [LinearOrder α] [IsStrictOrderedRing α]

theorem any_range_false {k : Nat} {f : Nat → Bool} (h : (List.range k).any f = false) (i : Nat) (hi : i < k) :
    f i = false := by
  rw [List.any_eq_false] at h
  have := h i (List.mem_range.mpr hi)
  simpa using this

/-- after the jitter every diagonal entry of `R'` is at least `eps` in absolute value -/
theorem qr_jitter_diag_bound (eps : α) (heps : 0 < eps) (k : Nat) (rdiag : Nat → α) (i : Nat) (hi : i < k) :
    eps ≤ |rdiag i + qrJitter eps k rdiag i| := by
  unfold qrJitter
  simp only
  by_cases hz : (if rdiag i < 0 then -rdiag i else rdiag i) < eps
  · -- this entry is zeroish, hence some entry is
    have hany : (List.range k).any (fun i => decide ((if rdiag i < 0 then -rdiag i else rdiag i) < eps)) = true := by
      rw [List.any_eq_true]
      exact ⟨i, List.mem_range.mpr hi, by simpa using hz⟩
    rw [if_pos hany]
    simp only [hz, decide_true, if_true]
    by_cases hneg : rdiag i < 0
    · rw [if_pos hneg]
      rw [abs_of_neg (by linarith)]
      linarith
    · rw [if_neg hneg]
      have : 0 ≤ rdiag i := not_lt.mp hneg
      rw [abs_of_nonneg (by linarith)]
      linarith
  · have hge : eps ≤ |rdiag i| := by
      by_cases hneg : rdiag i < 0
      · rw [if_pos hneg] at hz
        rw [abs_of_neg hneg]
        exact not_lt.mp hz
      · rw [if_neg hneg] at hz
        rw [abs_of_nonneg (not_lt.mp hneg)]
        exact not_lt.mp hz
    split
    · simp only [hz, decide_false]
      simpa using hge
    · simpa using hge

/-- without a near-zero pivot `stable_qr` returns the primitive's `R` unchanged -/
theorem stable_qr_noop (eps : α) (k : Nat) (R : M α)
    (h : ∀ i, i < k → ¬ ((if R i i < 0 then -R i i else R i i) < eps)) :
    stableQrR eps k R = R := by
  funext a b
  unfold stableQrR qrJitter
  simp only
  have hany : (List.range k).any (fun i => decide ((if R i i < 0 then -R i i else R i i) < eps)) = false := by
    rw [List.any_eq_false]
    intro i hi
    simpa using h i (List.mem_range.mp hi)
  rw [hany]
  simp

/-- contract: `Q R' = A + Q J` (column `j < k` gets `Q[:, j] * jitter_j`, later columns are unchanged) -/
theorem stable_qr_contract (eps : α) (k : Nat) (Q R A : M α)
    (hqr : ∀ i j, sumN k (fun a => Q i a * R a j) = A i j) (i j : Nat) :
    sumN k (fun a => Q i a * stableQrR eps k R a j) =
      A i j + (if j < k then Q i j * qrJitter eps k (fun t => R t t) j else 0) := by
  rw [← hqr i j]
  simp only [sumN_eq_sum, stableQrR]
  have : ∀ a ∈ Finset.range k,
      Q i a * (if a = j then R a j + qrJitter eps k (fun t => R t t) a else R a j) =
        Q i a * R a j + (if a = j then Q i j * qrJitter eps k (fun t => R t t) j else 0) := by
    intro a _
    by_cases h : a = j
    · subst h; simp [mul_add]
    · simp [h]
  rw [Finset.sum_congr rfl this, Finset.sum_add_distrib]
  congr 1
  by_cases hj : j < k
  · rw [if_pos hj, Finset.sum_ite_eq' (Finset.range k) j]
    simp [hj]
  · rw [if_neg hj]
    apply Finset.sum_eq_zero
    intro a ha
    have : a ≠ j := fun e => hj (e ▸ Finset.mem_range.mp ha)
    simp [this]

end qr

section backsubst
variable {α : Type} [Field α]

/-- back substitution solves the upper-triangular system row by row (rows `k-f .. k-1` after `f` steps) -/
theorem backSubst_rows (k : Nat) (R : M α) (b : Nat → α)
    (htri : ∀ i j, j < i → R i j = 0) (hdiag : ∀ i, i < k → R i i ≠ 0) :
    ∀ f, f ≤ k → ∀ i, k - f ≤ i → i < k →
      (∑ j ∈ Finset.range k, R i j * backSubst k R b f j) = b i := by
  intro f
  induction f with
  | zero => intro _ i h1 h2; omega
  | succ f ih =>
    intro hf i h1 h2
    simp only [backSubst]
    set i0 := k - 1 - f with hi0
    set x := backSubst k R b f with hx
    have hi0k : i0 < k := by omega
    by_cases hi : i = i0
    · subst hi
      rw [← Finset.add_sum_erase _ _ (Finset.mem_range.mpr hi0k)]
      simp only [if_true]
      have hrest : ∑ j ∈ (Finset.range k).erase i0, R i0 j * (if j = i0 then
            (b i0 - sumN k (fun j => if i0 < j then R i0 j * x j else 0)) / R i0 i0 else x j)
          = ∑ j ∈ (Finset.range k).erase i0, (if i0 < j then R i0 j * x j else 0) := by
        apply Finset.sum_congr rfl
        intro j hj
        have hne : j ≠ i0 := (Finset.mem_erase.mp hj).1
        rw [if_neg hne]
        by_cases hlt : i0 < j
        · rw [if_pos hlt]
        · rw [if_neg hlt, htri i0 j (by omega), zero_mul]
      rw [hrest]
      have hfull : sumN k (fun j => if i0 < j then R i0 j * x j else 0)
          = ∑ j ∈ (Finset.range k).erase i0, (if i0 < j then R i0 j * x j else 0) := by
        rw [sumN_eq_sum, ← Finset.add_sum_erase _ _ (Finset.mem_range.mpr hi0k)]
        simp
      rw [hfull, mul_div_cancel₀ _ (hdiag i0 hi0k)]
      ring
    · have hgt : i0 < i := by omega
      have : ∑ j ∈ Finset.range k, R i j * (if j = i0 then
            (b i0 - sumN k (fun j => if i0 < j then R i0 j * x j else 0)) / R i0 i0 else x j)
          = ∑ j ∈ Finset.range k, R i j * x j := by
        apply Finset.sum_congr rfl
        intro j _
        by_cases hj : j = i0
        · subst hj
          rw [htri i i0 hgt, zero_mul, zero_mul]
        · rw [if_neg hj]
      rw [this]
      exact ih (by omega) i (by omega) h2

/-- `solve_triangular(R, B)` as modelled: `R X = B` for upper-triangular `R` with non-zero diagonal -/
theorem backSubst_solves (k : Nat) (R : M α) (b : Nat → α)
    (htri : ∀ i j, j < i → R i j = 0) (hdiag : ∀ i, i < k → R i i ≠ 0) (i : Nat) (hi : i < k) :
    sumN k (fun j => R i j * backSubst k R b k j) = b i := by
  rw [sumN_eq_sum]
  exact backSubst_rows k R b htri hdiag k (Nat.le_refl k) i (by omega) hi

end backsubst

section mp
open Matrix
variable {α : Type} [Field α] {m n : Type} [Fintype m] [Fintype n] [DecidableEq n]

/-- Moore–Penrose conditions -/
def IsMP (A : Matrix m n α) (P : Matrix n m α) : Prop :=
  A * P * A = A ∧ P * A * P = P ∧ (A * P)ᵀ = A * P ∧ (P * A)ᵀ = P * A

/-- tall / square branch of `stable_pinverse`: with `A = Q R`, `QᵀQ = I`, `R` invertible (full column
rank, no jitter) and `R P = Qᵀ` (the triangular solve), `P` is a left inverse of `A` and satisfies all four
Moore–Penrose conditions. -/
theorem pinverse_tall (A Q : Matrix m n α) (R : Matrix n n α) (P : Matrix n m α)
    (hA : A = Q * R) (hQ : Qᵀ * Q = 1) (hR : IsUnit R.det) (hP : R * P = Qᵀ) :
    P * A = 1 ∧ IsMP A P := by
  have hRi : R⁻¹ * R = 1 := Matrix.nonsing_inv_mul R hR
  have hRi' : R * R⁻¹ = 1 := Matrix.mul_nonsing_inv R hR
  have hPeq : P = R⁻¹ * Qᵀ := by
    calc P = (R⁻¹ * R) * P := by rw [hRi, Matrix.one_mul]
      _ = R⁻¹ * (R * P) := by rw [Matrix.mul_assoc]
      _ = R⁻¹ * Qᵀ := by rw [hP]
  have hPA : P * A = 1 := by
    rw [hPeq, hA]
    calc R⁻¹ * Qᵀ * (Q * R) = R⁻¹ * (Qᵀ * Q) * R := by simp only [Matrix.mul_assoc]
      _ = 1 := by rw [hQ, Matrix.mul_one, hRi]
  have hAP : A * P = Q * Qᵀ := by
    rw [hPeq, hA]
    calc Q * R * (R⁻¹ * Qᵀ) = Q * (R * R⁻¹) * Qᵀ := by simp only [Matrix.mul_assoc]
      _ = Q * Qᵀ := by rw [hRi', Matrix.mul_one]
  refine ⟨hPA, ?_, ?_, ?_, ?_⟩
  · rw [Matrix.mul_assoc, hPA, Matrix.mul_one]
  · rw [hPA, Matrix.one_mul]
  · rw [hAP, Matrix.transpose_mul, Matrix.transpose_transpose]
  · rw [hPA, Matrix.transpose_one]

/-- fat branch: the transpose of a Moore–Penrose inverse of `Aᵀ` is one of `A` -/
theorem pinverse_fat (A : Matrix m n α) (P : Matrix m n α) (h : IsMP Aᵀ P) : IsMP A Pᵀ := by
  obtain ⟨h1, h2, h3, h4⟩ := h
  refine ⟨?_, ?_, ?_, ?_⟩
  · have := congrArg Matrix.transpose h1
    simpa [Matrix.transpose_mul, Matrix.mul_assoc] using this
  · have := congrArg Matrix.transpose h2
    simpa [Matrix.transpose_mul, Matrix.mul_assoc] using this
  · have := h4
    simp only [Matrix.transpose_mul, Matrix.transpose_transpose] at this ⊢
    rw [this]
  · have := h3
    simp only [Matrix.transpose_mul, Matrix.transpose_transpose] at this ⊢
    rw [this]

end mp

end LinOp.C20
