/-
C20 — executable model of the utility kernels of linear_operator (core Lean only):

  utils/toeplitz.py      toeplitz, sym_toeplitz, toeplitz_getitem, toeplitz_matmul (shape logic, 1-D rhs
                         branch, first-element check, circulant embedding of length 2n-1, FFT abstracted
                         as the circular convolution `circConv`), sym_toeplitz_derivative_quadratic_form
  utils/interpolation.py left_interp (gather * values, sum), left_t_interp (summing matrix + dsmm)
  utils/sparse.py        make_sparse_from_indices_and_values, bdsmm (three branches), sparse_eye,
                         sparse_getitem, sparse_repeat, to_sparse
  utils/permutation.py   apply_permutation, inverse_permutation
  utils/qr.py            stable_qr (QR is a parameter; the jitter logic is modelled)
  utils/pinverse.py      stable_pinverse (tall / fat through QR and a triangular solve)
  utils/broadcasting.py  _matmul_broadcast_shape
  functions/_dsmm.py     DSMM.forward / backward

Vectors and matrices are index functions on `Nat` (`Nat → α`, `Nat → Nat → α`); batched tensors are
`Tn α` (shape + index function on index lists).  A sparse COO tensor is a list of
(index tuple, value); its meaning (`densify`) adds the values of equal index tuples (coalescing = sum).

`fixed : Bool`: `true` is the CURRENT code (after the fix commits 94ba5d1 / 571691c / 826dae6 / 64f3bec for the defects
D27 1-D rhs of `toeplitz_matmul`, D28 `sparse_repeat` offset, D31 negative int in `sparse_getitem`, D32 `stable_qr` on fat
matrices) and the subject of the main theorems; `false` is the PREVIOUS code, kept only for the `previous_code_*` statements.
The driver and the correspondence use `fixed = true` only.
-/
namespace LinOp.C20

variable {α : Type}

/-- `Σ_{i<n} f i`, left to right. -/
def sumN [Add α] [Zero α] : Nat → (Nat → α) → α
  | 0, _ => 0
  | n + 1, f => sumN n f + f n

/-! ## shapes, flat/unflat indices, broadcasting -/

def prod : List Nat → Nat
  | [] => 1
  | d :: ds => d * prod ds

/-- row-major multi-index of flat position `p` (digit of dimension `d` is `(p / stride) % d`). -/
def unflat : List Nat → Nat → List Nat
  | [], _ => []
  | d :: ds, p => (p / prod ds) % d :: unflat ds p

/-- row-major flat position of a multi-index. -/
def flat : List Nat → List Nat → Nat
  | _ :: ds, i :: is => i * prod ds + flat ds is
  | _, _ => 0

def allIdx (shape : List Nat) : List (List Nat) :=
  (List.range (prod shape)).map (unflat shape)

/-- broadcasting of two reversed shapes -/
def bcastRev : List Nat → List Nat → Option (List Nat)
  | [], b => some b
  | a, [] => some a
  | x :: a, y :: b =>
    if x = y ∨ y = 1 then (bcastRev a b).map (x :: ·)
    else if x = 1 then (bcastRev a b).map (y :: ·) else none

/-- `torch.broadcast_shapes` -/
def broadcastShapes (a b : List Nat) : Option (List Nat) :=
  (bcastRev a.reverse b.reverse).map List.reverse

/-- index into an operand of (batch) shape `s` from an index `idx` of a shape `s` broadcasts to
(right aligned; size-1 dimensions read position 0) — `expand` semantics. -/
def restrictIdx (s : List Nat) (idx : List Nat) : List Nat :=
  List.zipWith (fun d i => if d = 1 then 0 else i) s (idx.drop (idx.length - s.length))

/-- `broadcasting._matmul_broadcast_shape` (`a` has at least two dimensions). -/
def matmulBroadcastShape (a b : List Nat) : Except String (List Nat) :=
  let m := a.getD (a.length - 2) 0
  let n := a.getD (a.length - 1) 0
  let p := b.getD (b.length - 1) 0
  if b.length = 1 then
    if n ≠ p then .error "RuntimeError" else .ok a.dropLast
  else if n ≠ b.getD (b.length - 2) 0 then .error "RuntimeError"
  else match broadcastShapes (a.take (a.length - 2)) (b.take (b.length - 2)) with
    | none => .error "RuntimeError"
    | some bc => .ok (bc ++ [m, p])

/-- batched tensor: shape + index function (only indices inside the box are meaningful) -/
structure Tn (α : Type) where
  shape : List Nat
  get : List Nat → α

def Tn.batch (t : Tn α) (k : Nat) : List Nat := t.shape.take (t.shape.length - k)

/-! ## Toeplitz -/

abbrev M (α : Type) := Nat → Nat → α

def setM (m : M α) (a b : Nat) (v : α) : M α := fun i j => if i = a ∧ j = b then v else m i j

/-- `for j in range(cnt): res[j + i, j] = val` -/
def fillSub (res : M α) (i : Nat) (val : α) : Nat → M α
  | 0 => res
  | k + 1 => setM (fillSub res i val k) (k + i) k val

/-- `for j in range(cnt): res[j, j + i] = val` -/
def fillSup (res : M α) (i : Nat) (val : α) : Nat → M α
  | 0 => res
  | k + 1 => setM (fillSup res i val k) k (k + i) val

/-- first `m` iterations of `for i, val in enumerate(toeplitz_column)` -/
def colLoop (n : Nat) (c : Nat → α) (res : M α) : Nat → M α
  | 0 => res
  | i + 1 => fillSub (colLoop n c res i) i (c i) (n - i)

/-- first `m` iterations of `for i, val in list(enumerate(toeplitz_row))[1:]` (i = 1 .. m) -/
def rowLoop (n : Nat) (r : Nat → α) (res : M α) : Nat → M α
  | 0 => res
  | i + 1 => fillSup (rowLoop n r res i) (i + 1) (r (i + 1)) (n - (i + 1))

/-- `toeplitz(toeplitz_column, toeplitz_row)`; `nc`, `nr` the two lengths (≥ 1), `junk` the
uninitialised content of `torch.empty`. -/
def toeplitz [DecidableEq α] (nc nr : Nat) (c r : Nat → α) (junk : M α) : Except String (M α) :=
  if c 0 ≠ r 0 then .error "RuntimeError"
  else if nc ≠ nr then .error "RuntimeError"
  else if nc = 1 then .ok (fun _ _ => c 0)
  else .ok (rowLoop nc r (colLoop nc c junk nc) (nc - 1))

def symToeplitz [DecidableEq α] (n : Nat) (c : Nat → α) (junk : M α) : Except String (M α) :=
  toeplitz n n c c junk

/-- the dense definition: `T[i,j] = c[i-j]` for `i ≥ j`, `r[j-i]` otherwise -/
def toeplitzEntry (c r : Nat → α) (i j : Nat) : α := if j ≤ i then c (i - j) else r (j - i)

/-- `toeplitz_getitem` -/
def toeplitzGetitem (c r : Nat → α) (i j : Nat) : α :=
  let index : Int := (i : Int) - (j : Int)
  if index < 0 then r index.natAbs else c index.toNat

/-- `c_r_rev`: `[c_0 … c_{n-1}, r_{n-1} … r_1]` (length `2n-1`) -/
def embed (n : Nat) (c r : Nat → α) : Nat → α :=
  fun k => if k < n then c k else r (n - 1 - (k - n))

/-- `temp_tensor`: rhs column zero-padded to length `2n-1` -/
def padX [Zero α] (n : Nat) (x : Nat → α) : Nat → α := fun k => if k < n then x k else 0

/-- what `ifft(fft(a) * fft(b)).real` denotes (assumed contract of the FFT): circular convolution -/
def circConv [Add α] [Zero α] [Mul α] (L : Nat) (a b : Nat → α) : Nat → α :=
  fun k => sumN L fun m => a ((k + L - m) % L) * b m

/-- one column of `toeplitz_matmul`: first `n` entries of the circular convolution -/
def toeplitzMatmulCore [Add α] [Zero α] [Mul α] (n : Nat) (c r x : Nat → α) : Nat → α :=
  circConv (2 * n - 1) (embed n c r) (padX n x)

/-- `toeplitz_matmul(toeplitz_column, toeplitz_row, tensor)` with its shape logic. -/
def toeplitzMatmul [Add α] [Zero α] [Mul α] [DecidableEq α] (fixed : Bool) (c r x : Tn α) :
    Except String (Tn α) :=
  if c.shape ≠ r.shape then .error "RuntimeError" else
  let n := c.shape.getD (c.shape.length - 1) 0
  let tshape := c.shape ++ [n]
  let isVec := x.shape.length = 1
  if isVec && !fixed then
    -- unchanged tree: `_matmul_broadcast_shape` first, then `tensor.expand(*output_shape)` with the
    -- unsqueezed (n, 1) tensor and a shape of its 1-D form: raises
    match matmulBroadcastShape tshape x.shape with
    | .error e => .error e
    | .ok _ => .error "RuntimeError"
  else
    let xs := if isVec then x.shape ++ [1] else x.shape
    let xg : List Nat → α := if isVec then fun idx => x.get idx.dropLast else x.get
    match matmulBroadcastShape tshape xs with
    | .error e => .error e
    | .ok out =>
      let nb := out.length - 2
      let bshape := out.take nb
      let cb := c.shape.dropLast
      let xb := xs.take (xs.length - 2)
      if (allIdx bshape).any (fun b => c.get (restrictIdx cb b ++ [0]) ≠ r.get (restrictIdx cb b ++ [0])) then
        .error "RuntimeError"
      else
        let res : List Nat → α := fun idx =>
          let b := idx.take nb
          let i := idx.getD nb 0
          let k := idx.getD (nb + 1) 0
          toeplitzMatmulCore n (fun a => c.get (restrictIdx cb b ++ [a])) (fun a => r.get (restrictIdx cb b ++ [a]))
            (fun a => xg (restrictIdx xb b ++ [a, k])) i
        if isVec then .ok ⟨out.dropLast, fun idx => res (idx ++ [0])⟩ else .ok ⟨out, res⟩

/-- `sym_toeplitz_derivative_quadratic_form` for `s` pairs of vectors of length `m`
(`u j a` = component `a` of the `j`-th left vector): the two flipped Toeplitz products and the
correction of entry 0. -/
def dqfCore [Add α] [Zero α] [Mul α] [Sub α] (m s : Nat) (u v : Nat → Nat → α) : Nat → α := fun i =>
  let t1 := fun j => toeplitzMatmulCore m (fun k => if k = 0 then u j 0 else 0) (u j) (v j) i
  let t2 := fun j => toeplitzMatmulCore m (fun k => if k = 0 then u j (m - 1) else 0)
                        (fun k => u j (m - 1 - k)) (fun k => v j (m - 1 - k)) i
  let tot := sumN s fun j => t1 j + t2 j
  if i = 0 then tot - sumN s (fun j => sumN m fun a => u j a * v j a) else tot

/-- the dense definition: `Σ_j u_jᵀ (∂T/∂c_i) v_j`, `∂T/∂c_i` = indicator of `|a-b| = i` -/
def dqfSpec [Add α] [Zero α] [Mul α] (m s : Nat) (u v : Nat → Nat → α) : Nat → α := fun i =>
  sumN s fun j => sumN m fun a => sumN m fun b =>
    if (a = b + i ∨ b = a + i) then u j a * v j b else 0

/-- batched wrapper: `left`, `right` of shape `(…, m, s)` or `(m,)`. -/
def dqf [Add α] [Zero α] [Mul α] [Sub α] (left right : Tn α) : Tn α :=
  if left.shape.length = 1 then
    let m := left.shape.getD 0 0
    ⟨[m], fun idx => dqfCore m 1 (fun _ a => left.get [a]) (fun _ a => right.get [a]) (idx.getD 0 0)⟩
  else
    let nb := left.shape.length - 2
    let m := left.shape.getD nb 0
    let s := left.shape.getD (nb + 1) 0
    ⟨left.shape.take nb ++ [m], fun idx =>
      let b := idx.take nb
      dqfCore m s (fun j a => left.get (b ++ [a, j])) (fun j a => right.get (b ++ [a, j])) (idx.getD nb 0)⟩

/-! ## interpolation -/

/-- the dense interpolation matrix: `W[r, c] = Σ_k [idx[r,k] = c] val[r,k]` (duplicates add) -/
def interpW [Add α] [Zero α] (K : Nat) (idx : Nat → Nat → Nat) (val : Nat → Nat → α) (r c : Nat) : α :=
  sumN K fun k => if idx r k = c then val r k else 0

/-- `left_interp`, one right-hand-side column: gather, multiply by the values, sum over `k` -/
def leftInterpCore [Add α] [Zero α] [Mul α] (K : Nat) (idx : Nat → Nat → Nat) (val : Nat → Nat → α)
    (x : Nat → α) : Nat → α :=
  fun r => sumN K fun k => x (idx r k) * val r k

/-- `left_interp(interp_indices, interp_values, rhs)` with both branches' shape logic -/
def leftInterp [Add α] [Zero α] [Mul α] (idx : Tn Nat) (val : Tn α) (rhs : Tn α) : Except String (Tn α) :=
  let nbi := idx.shape.length - 2
  let K := idx.shape.getD (nbi + 1) 0
  if rhs.shape.length = 1 then
    -- vector branch: index_select on the flattened indices, view as the values' shape, sum(-1)
    .ok ⟨val.shape.dropLast, fun o =>
      leftInterpCore K (fun _ k => idx.get (o ++ [k])) (fun _ k => val.get (o ++ [k])) (fun a => rhs.get [a]) 0⟩
  else
    let nd := rhs.shape.getD (rhs.shape.length - 2) 0
    match matmulBroadcastShape (idx.shape.dropLast ++ [nd]) rhs.shape with
    | .error e => .error e
    | .ok out =>
      let nb := out.length - 2
      let ib := idx.shape.take nbi
      let vb := val.shape.take (val.shape.length - 2)
      let rb := rhs.shape.take (rhs.shape.length - 2)
      .ok ⟨out, fun o =>
        let b := o.take nb
        leftInterpCore K (fun r k => idx.get (restrictIdx ib b ++ [r, k])) (fun r k => val.get (restrictIdx vb b ++ [r, k]))
          (fun a => rhs.get (restrictIdx rb b ++ [a, o.getD (nb + 1) 0])) (o.getD nb 0)⟩

/-! ## sparse COO tensors as entry lists -/

abbrev Ents (α : Type) := List (List Nat × α)

structure Sp (α : Type) where
  shape : List Nat
  ents : Ents α

/-- meaning of an entry list: values of equal index tuples add (coalescing) -/
def densify [Add α] [Zero α] : Ents α → List Nat → α
  | [], _ => 0
  | (i, v) :: t, idx => (if i = idx then v else 0) + densify t idx

/-- contract of `torch.dsmm` on a 2-D entry list: `(S D)[i, c] = Σ_e [e.row = i] e.val * D[e.col, c]` -/
def spmm [Add α] [Zero α] [Mul α] : Ents α → (Nat → Nat → α) → Nat → Nat → α
  | [], _, _, _ => 0
  | (ix, v) :: t, d, i, c => (if ix.getD 0 0 = i then v * d (ix.getD 1 0) c else 0) + spmm t d i c

/-- `left_t_interp`, one column: summing matrix `S[idx[d,k], d*K+k] = 1` times
`values[d*K+k] = x[d] * val[d,k]` -/
def summingEnts [One α] (D K : Nat) (idx : Nat → Nat → Nat) : Ents α :=
  (List.range (D * K)).map fun p => ([idx (p / K) (p % K), p], 1)

def leftTInterpCore [Add α] [Zero α] [Mul α] [One α] (D K : Nat) (idx : Nat → Nat → Nat)
    (val : Nat → Nat → α) (x : Nat → α) : Nat → α :=
  fun o => spmm (summingEnts D K idx) (fun p _ => x (p / K) * val (p / K) (p % K)) o 0

/-- `left_t_interp(interp_indices, interp_values, rhs, output_dim)` -/
def leftTInterp [Add α] [Zero α] [Mul α] [One α] (idx : Tn Nat) (val : Tn α) (rhs : Tn α) (outDim : Nat) :
    Except String (Tn α) :=
  let isVec := rhs.shape.length = 1
  let rs := if isVec then rhs.shape ++ [1] else rhs.shape
  let rg : List Nat → α := if isVec then fun i => rhs.get i.dropLast else rhs.get
  let nbi := idx.shape.length - 2
  let D := val.shape.getD (val.shape.length - 2) 0
  let K := val.shape.getD (val.shape.length - 1) 0
  match matmulBroadcastShape (idx.shape.take nbi ++ [outDim, D]) rs with
  | .error e => .error e
  | .ok out =>
    let nb := out.length - 2
    let ib := idx.shape.take nbi
    let vb := val.shape.take (val.shape.length - 2)
    let rb := rs.take (rs.length - 2)
    let res : List Nat → α := fun o =>
      let b := o.take nb
      leftTInterpCore D K (fun d k => idx.get (restrictIdx ib b ++ [d, k])) (fun d k => val.get (restrictIdx vb b ++ [d, k]))
        (fun d => rg (restrictIdx rb b ++ [d, o.getD (nb + 1) 0])) (o.getD nb 0)
    if isVec then .ok ⟨out.dropLast, fun o => res (o ++ [0])⟩ else .ok ⟨out, res⟩

/-- `make_sparse_from_indices_and_values`: `bs` batch shape, `T` target points, `K` coefficients,
`idxf`/`valf` the flattened index / value tensors.  Result shape `bs ++ [numRows, T]`. -/
def makeSparse [Zero α] [DecidableEq α] (bs : List Nat) (T K : Nat) (idxf : Nat → Nat) (valf : Nat → α)
    (numRows : Nat) : Sp α :=
  let total := prod bs * T * K
  let all : Ents α := (List.range total).map fun p =>
    ((unflat (bs ++ [T, K]) p).take bs.length ++ [idxf p, (p / K) % T], valf p)
  let nz := all.filter fun e => e.2 ≠ 0
  let ents := if nz.isEmpty then [(List.replicate (bs.length + 2) 0, 0)] else nz
  ⟨bs ++ [numRows, T], ents⟩

def sparseEye [One α] (n : Nat) : Sp α :=
  ⟨[n, n], (List.range n).map fun i => ([i, i], 1)⟩

/-- `to_sparse(dense)` -/
def toSparse [Zero α] [DecidableEq α] (d : Tn α) : Sp α :=
  let nz := (allIdx d.shape).filter fun i => d.get i ≠ 0
  if nz.isEmpty then ⟨d.shape, [(List.replicate d.shape.length 0, 0)]⟩
  else ⟨d.shape, nz.map fun i => (i, d.get i)⟩

/-- one step `for i, repeat_size in enumerate(repeat_sizes)` of `sparse_repeat` -/
def repeatDim (fixed : Bool) (i rep : Nat) (s : Sp α) : Sp α :=
  if rep > 1 then
    let sz := s.shape.getD i 0
    ⟨s.shape.set i (rep * sz),
     (List.range rep).flatMap fun k =>
       s.ents.map fun e => (e.1.set i (e.1.getD i 0 + (if fixed then k * sz else k)), e.2)⟩
  else s

def repeatLoop (fixed : Bool) : Nat → List Nat → Sp α → Sp α
  | _, [], s => s
  | i, rep :: reps, s => repeatLoop fixed (i + 1) reps (repeatDim fixed i rep s)

/-- `sparse_repeat(sparse, *repeat_sizes)` -/
def sparseRepeat (fixed : Bool) (s : Sp α) (reps : List Nat) : Sp α :=
  let extra := reps.length - s.shape.length
  let s' : Sp α := if reps.length > s.shape.length then
      ⟨List.replicate extra 1 ++ s.shape, s.ents.map fun e => (List.replicate extra 0 ++ e.1, e.2)⟩
    else s
  repeatLoop fixed 0 reps s'

/-- index items accepted by `sparse_getitem` -/
inductive Ix
  | int (z : Int)
  | slice (start stop step : Option Int)

/-- Python `slice.indices(n)` for step 1: clamped start / stop -/
def sliceBound (n : Nat) (x : Option Int) (dflt : Nat) : Nat :=
  match x with
  | none => dflt
  | some v => if v < 0 then (v + n).toNat else min v.toNat n

def sumVals [Add α] [Zero α] : Ents α → α
  | [] => 0
  | e :: t => e.2 + sumVals t

/-- one iteration of the loop of `sparse_getitem` (position `i`, item `ix`) -/
def getitemStep [Zero α] (i : Nat) (ix : Ix) (s : Sp α) : Except String (Sp α) :=
  match ix with
  | .int z =>
    let kept := s.ents.filter fun e => (e.1.getD i 0 : Int) = z
    let size := s.shape.eraseIdx i
    if kept.isEmpty then .ok ⟨size, [(List.replicate size.length 0, 0)]⟩
    else .ok ⟨size, kept.map fun e => (e.1.eraseIdx i, e.2)⟩
  | .slice start stop step =>
    let n := s.shape.getD i 0
    let a := sliceBound n start 0
    let b := sliceBound n stop n
    if step.getD 1 ≠ 1 then .error "RuntimeError"
    else
      let size := s.shape.set i (b - a)
      let kept := s.ents.filter fun e => e.1.getD i 0 < b ∧ a ≤ e.1.getD i 0
      if kept.isEmpty then .ok ⟨size, [(List.replicate size.length 0, 0)]⟩
      else .ok ⟨size, kept.map fun e => (e.1.set i (e.1.getD i 0 - a), e.2)⟩

/-- items are processed from the last position to the first -/
def getitemLoop [Zero α] : List (Nat × Ix) → Sp α → Except String (Sp α)
  | [], s => .ok s
  | (i, ix) :: rest, s => match getitemStep i ix s with
    | .error e => .error e
    | .ok s' => getitemLoop rest s'

/-- `sparse_getitem(sparse, idxs)`: a scalar (`Sum.inl`) once every dimension was consumed -/
def normIx (fixed : Bool) (n : Nat) : Ix → Ix
  | .int z => if fixed && z < 0 then .int (z + n) else .int z
  | ix => ix

/-- `fixed = false`: the code as it is (a negative integer matches no stored index: zeros, defect D31);
`fixed = true`: negative integers count from the end (notes/C20_fix_3.diff). -/
def sparseGetitem [Add α] [Zero α] (fixed : Bool) (s : Sp α) (idxs : List Ix) : Except String (Sum α (Sp α)) :=
  let idxs := List.zipWith (fun n ix => normIx fixed n ix) s.shape idxs ++ idxs.drop s.shape.length
  if s.shape.length > 2 then .error "RuntimeError"
  else if idxs.length > s.shape.length then .error "RuntimeError"
  else match getitemLoop ((List.range idxs.length).zip idxs).reverse s with
    | .error e => .error e
    | .ok r => if r.shape.isEmpty then .ok (.inl (sumVals r.ents)) else .ok (.inr r)

/-- block-diagonal flattening of a batched sparse tensor (`nb` batch dims of shape `bshape`):
row += flatBatch * numRows, col += flatBatch * numCols -/
def blockDiagEnts (bshape : List Nat) (numRows numCols : Nat) (ents : Ents α) : Ents α :=
  ents.map fun e =>
    let ba := flat bshape (e.1.take bshape.length)
    ([e.1.getD bshape.length 0 + ba * numRows, e.1.getD (bshape.length + 1) 0 + ba * numCols], e.2)

def transposeEnts (nb : Nat) (ents : Ents α) : Ents α :=
  ents.map fun e => (e.1.take nb ++ [e.1.getD (nb + 1) 0, e.1.getD nb 0], e.2)

/-- `bdsmm(sparse, dense)` -/
def bdsmm [Add α] [Zero α] [Mul α] (fixed : Bool) (s : Sp α) (d : Tn α) : Except String (Tn α) :=
  let sd := s.shape.length
  if sd > 2 then
    match matmulBroadcastShape s.shape d.shape with
    | .error e => .error e
    | .ok out =>
      let nb := out.length - 2
      let bshape := out.take nb
      let expanded := bshape ++ s.shape.drop (sd - 2)
      let unsq := List.replicate (out.length - sd) 1 ++ s.shape
      let reps := List.zipWith (fun o z => o / z) expanded unsq
      let s' := sparseRepeat fixed s reps
      let numRows := s'.shape.getD nb 0
      let numCols := s'.shape.getD (nb + 1) 0
      let db := d.shape.take (d.shape.length - 2)
      let ents2 := blockDiagEnts bshape numRows numCols s'.ents
      let dense2 : Nat → Nat → α := fun q c =>
        d.get (restrictIdx db (unflat bshape (q / numCols)) ++ [q % numCols, c])
      .ok ⟨bshape ++ [numRows, out.getD (nb + 1) 0], fun o =>
        spmm ents2 dense2 (flat bshape (o.take nb) * numRows + o.getD nb 0) (o.getD (nb + 1) 0)⟩
  else if d.shape.length > 2 then
    -- sparse 2-D, dense batched: dense viewed as (rows, batch * cols)
    let nb := d.shape.length - 2
    let bshape := d.shape.take nb
    let rows := d.shape.getD nb 0
    let cols := d.shape.getD (nb + 1) 0
    if s.shape.getD 1 0 ≠ rows then .error "RuntimeError" else
    let dense2 : Nat → Nat → α := fun j q => d.get (unflat bshape (q / cols) ++ [j, q % cols])
    .ok ⟨bshape ++ [s.shape.getD 0 0, cols], fun o =>
      spmm s.ents dense2 (o.getD nb 0) (flat bshape (o.take nb) * cols + o.getD (nb + 1) 0)⟩
  else
    if s.shape.getD 1 0 ≠ d.shape.getD 0 0 then .error "RuntimeError" else
    .ok ⟨[s.shape.getD 0 0, d.shape.getD 1 0], fun o => spmm s.ents (fun j c => d.get [j, c]) (o.getD 0 0) (o.getD 1 0)⟩

/-- `DSMM.backward`: gradient w.r.t. the dense operand = `bdsmm(sparse.mT, grad_output)` -/
def dsmmBackward [Add α] [Zero α] [Mul α] (fixed : Bool) (s : Sp α) (g : Tn α) : Except String (Tn α) :=
  let nb := s.shape.length - 2
  bdsmm fixed ⟨s.shape.take nb ++ [s.shape.getD (nb + 1) 0, s.shape.getD nb 0], transposeEnts nb s.ents⟩ g

/-! ## permutations -/

/-- `apply_permutation` on one matrix: fancy indexing `K[l.unsqueeze(-1), r.unsqueeze(-2)]` -/
def applyPermCore (K : M α) (l r : Nat → Nat) : M α := fun i j => K (l i) (r j)

/-- batched: `matrix[*batch_idx, left.unsqueeze(-1), right.unsqueeze(-2)]`; `none` = identity (arange) -/
def applyPerm (K : Tn α) (l r : Option (Tn Nat)) : Except String (Tn α) :=
  let nbk := K.shape.length - 2
  let kb := K.shape.take nbk
  match l, r with
  | none, none => .ok K
  | _, _ =>
    let lsh := match l with | some t => t.shape | none => [K.shape.getD nbk 0]
    let rsh := match r with | some t => t.shape | none => [K.shape.getD (nbk + 1) 0]
    let lg : List Nat → Nat := match l with | some t => t.get | none => fun i => i.getD 0 0
    let rg : List Nat → Nat := match r with | some t => t.get | none => fun i => i.getD 0 0
    match broadcastShapes kb lsh.dropLast with
    | none => .error "IndexError"
    | some b1 => match broadcastShapes b1 rsh.dropLast with
      | none => .error "IndexError"
      | some bshape =>
        let nb := bshape.length
        .ok ⟨bshape ++ [lsh.getD (lsh.length - 1) 0, rsh.getD (rsh.length - 1) 0], fun o =>
          let b := o.take nb
          -- the batch index grids have exactly the matrix' batch dims: K is indexed at the broadcast
          -- batch index restricted to K's batch dims
          K.get (restrictIdx kb b ++ [lg (restrictIdx lsh.dropLast b ++ [o.getD nb 0]),
                                      rg (restrictIdx rsh.dropLast b ++ [o.getD (nb + 1) 0])])⟩

/-- `scatter_` loop: first `m` writes `res[p[i]] = i` -/
def scatterLoop (p : Nat → Nat) (res : Nat → Nat) : Nat → (Nat → Nat)
  | 0 => res
  | i + 1 => fun a => if a = p i then i else scatterLoop p res i a

/-- `inverse_permutation` of one permutation vector of length `n` -/
def inversePermCore (n : Nat) (p : Nat → Nat) : Nat → Nat := scatterLoop p (fun _ => 0) n

/-! ## stable QR / pseudo-inverse -/

/-- the jitter logic of `stable_qr` on the diagonal of `R` (`eps = 1e-6`): returns the jitter added
to diagonal entry `i` (`0` when no diagonal entry is below `eps` in absolute value) -/
def qrJitter [Zero α] [Neg α] [LT α] [DecidableLT α] (eps : α) (k : Nat) (rdiag : Nat → α) : Nat → α :=
  let absv : α → α := fun x => if x < 0 then -x else x
  let zeroish : Nat → Bool := fun i => absv (rdiag i) < eps
  if (List.range k).any zeroish then
    fun i => if zeroish i then (if rdiag i < 0 then -eps else eps) else 0
  else fun _ => 0

/-- `stable_qr`: `(Q, R)` from the QR primitive; `R' = R + diag_embed(jitter)` -/
def stableQrR [Zero α] [Add α] [Neg α] [LT α] [DecidableLT α] (eps : α) (k : Nat) (R : M α) : M α :=
  let j := qrJitter eps k (fun i => R i i)
  fun a b => if a = b then R a b + j a else R a b

/-- `stable_qr` on an `R` of shape `k × n2` (`k = min(m, n)`, `n2 = n`) with the shape behaviour of
`R + torch.diag_embed(jitter_diag)`: the unchanged code (`fixed = false`) adds a `k × k` matrix to the
`k × n2` matrix `R` — for a fat `R` (`n2 > k`) this raises when `k > 1` and broadcasts the single jitter value
over the whole row when `k = 1` (defect D32); nothing is added when no pivot is near zero. -/
def stableQr [Zero α] [Add α] [Neg α] [LT α] [DecidableLT α] (fixed : Bool) (eps : α) (k n2 : Nat) (R : M α) :
    Except String (M α) :=
  let absv : α → α := fun x => if x < 0 then -x else x
  let anyZeroish := (List.range k).any fun i => absv (R i i) < eps
  if !anyZeroish then .ok R
  else if fixed || n2 = k then .ok (stableQrR eps k R)
  else if k = 1 then .ok (fun a b => R a b + qrJitter eps k (fun i => R i i) 0)
  else .error "RuntimeError"

/-- back substitution `R X = B` for upper-triangular `R` (k × k), one column; `fuel = k` -/
def backSubst [Zero α] [Add α] [Sub α] [Mul α] [Div α] (k : Nat) (R : M α) (b : Nat → α) : Nat → (Nat → α)
  | 0 => fun _ => 0
  | f + 1 =>
    let x := backSubst k R b f
    let i := k - 1 - f
    fun a => if a = i then (b i - sumN k (fun j => if i < j then R i j * x j else 0)) / R i i else x a

/-- `stable_pinverse(A)` for `A : m × n` given the QR primitive's output for `A` (tall/square) or
`Aᵀ` (fat): `solve_triangular(R', Qᵀ)` (transposed back for fat). -/
def stablePinverse [Zero α] [Add α] [Sub α] [Mul α] [Div α] [Neg α] [LT α] [DecidableLT α] (eps : α) (m n : Nat)
    (qrA qrAt : M α × M α) : M α :=
  if m ≥ n then
    let R' := stableQrR eps n qrA.2
    fun i j => backSubst n R' (fun a => qrA.1 j a) n i
  else
    let R' := stableQrR eps m qrAt.2
    fun i j => backSubst m R' (fun a => qrAt.1 i a) m j

end LinOp.C20
