import LinOp.C20.ProofsInterp
/-! C20 — `left_interp` and `left_t_interp` are adjoint: ⟨W x, y⟩ = ⟨x, Wᵀ y⟩. -/
namespace LinOp.C20
open Finset
variable {α : Type} [CommRing α]

/-- `⟨left_interp(idx, val, x), y⟩ = ⟨x, left_t_interp(idx, val, y, n)⟩` for `R` rows, `K` interpolation points per row
(any `K`, repeated indices allowed) and `n` columns. -/
theorem interp_adjoint (R K n : Nat) (idx : Nat → Nat → Nat) (val : Nat → Nat → α) (x y : Nat → α)
    (h : ∀ r, r < R → ∀ k, k < K → idx r k < n) :
    sumN R (fun r => leftInterpCore K idx val x r * y r) =
      sumN n (fun c => x c * leftTInterpCore R K idx val y c) := by
  have h1 : ∀ r, r < R → leftInterpCore K idx val x r * y r = (sumN n fun c => interpW K idx val r c * x c) * y r := by
    intro r hr
    rw [left_interp_def n K idx val x r (h r hr)]
  rw [sumN_congr R _ _ h1]
  have h2 : ∀ c, c < n → x c * leftTInterpCore R K idx val y c = x c * sumN R fun d => interpW K idx val d c * y d := by
    intro c _
    rw [left_t_interp_def]
  rw [sumN_congr n _ _ h2]
  simp only [sumN_eq_sum, Finset.sum_mul, Finset.mul_sum]
  rw [Finset.sum_comm]
  apply Finset.sum_congr rfl
  intro c _
  apply Finset.sum_congr rfl
  intro r _
  ring

end LinOp.C20
