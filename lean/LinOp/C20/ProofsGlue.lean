import LinOp.C20.ProofsGeneral
import Mathlib.Data.List.Forall2
/-! C20 (extension session 5) — `_matmul_broadcast_shape` succeeding IMPLIES the broadcast relation `BcTo` used by
`bdsmm_general_def`: the final theorem `bdsmm_broadcast_def` needs no hypothesis about the shapes beyond the success of the
code's own shape function and non-emptiness of the batch. -/
namespace LinOp.C20

open BdsmmAux

theorem forall2_replicate_one : ∀ C : List Nat,
    List.Forall₂ (fun z o => z = o ∨ z = 1) (List.replicate C.length 1) C := by
  intro C
  induction C with
  | nil => exact List.Forall₂.nil
  | cons x t ih => exact List.Forall₂.cons (Or.inr rfl) ih

theorem forall2_self : ∀ C : List Nat, List.Forall₂ (fun z o => z = o ∨ z = 1) C C := by
  intro C
  induction C with
  | nil => exact List.Forall₂.nil
  | cons x t ih => exact List.Forall₂.cons (Or.inl rfl) ih

/-- `bcastRev` (broadcasting of reversed shapes): each size of the first operand equals the result's size or is 1, and the
result is at least as long -/
theorem bcastRev_spec : ∀ (A B C : List Nat), bcastRev A B = some C →
    A.length ≤ C.length ∧
      List.Forall₂ (fun z o => z = o ∨ z = 1) (A ++ List.replicate (C.length - A.length) 1) C := by
  intro A
  induction A with
  | nil =>
    intro B C h
    simp only [bcastRev, Option.some.injEq] at h
    subst h
    exact ⟨Nat.zero_le _, by simpa using forall2_replicate_one B⟩
  | cons x a ih =>
    intro B C h
    cases B with
    | nil =>
      simp only [bcastRev, Option.some.injEq] at h
      subst h
      exact ⟨Nat.le_refl _, by simpa using forall2_self (x :: a)⟩
    | cons y b =>
      simp only [bcastRev] at h
      split at h
      · rw [Option.map_eq_some_iff] at h
        obtain ⟨C', hC', rfl⟩ := h
        obtain ⟨h1, h2⟩ := ih b C' hC'
        refine ⟨by simp; omega, ?_⟩
        simp only [List.length_cons, Nat.add_sub_add_right, List.cons_append]
        exact List.Forall₂.cons (Or.inl rfl) h2
      · split at h
        · rename_i hx
          rw [Option.map_eq_some_iff] at h
          obtain ⟨C', hC', rfl⟩ := h
          obtain ⟨h1, h2⟩ := ih b C' hC'
          refine ⟨by simp; omega, ?_⟩
          simp only [List.length_cons, Nat.add_sub_add_right, List.cons_append]
          exact List.Forall₂.cons (Or.inr hx) h2
        · exact absurd h (by simp)

/-- `torch.broadcast_shapes` as modelled: right-aligned, each size of the first operand equals the result's size or is 1 -/
theorem broadcastShapes_spec (sb db bshape : List Nat) (h : broadcastShapes sb db = some bshape) :
    sb.length ≤ bshape.length ∧
      List.Forall₂ (fun z o => z = o ∨ z = 1) (List.replicate (bshape.length - sb.length) 1 ++ sb) bshape := by
  unfold broadcastShapes at h
  rw [Option.map_eq_some_iff] at h
  obtain ⟨C, hC, rfl⟩ := h
  obtain ⟨h1, h2⟩ := bcastRev_spec _ _ _ hC
  simp only [List.length_reverse] at h1 h2 ⊢
  refine ⟨h1, ?_⟩
  rw [← List.forall₂_reverse_iff]
  simpa using h2

theorem forall2_and_pos {R : Nat → Nat → Prop} : ∀ (l1 l2 : List Nat), List.Forall₂ R l1 l2 → (∀ o ∈ l2, 0 < o) →
    List.Forall₂ (fun z o => R z o ∧ 0 < o) l1 l2 := by
  intro l1 l2 h
  induction h with
  | nil => intro _; exact List.Forall₂.nil
  | cons hab _ ih =>
    intro hp
    exact List.Forall₂.cons ⟨hab, hp _ List.mem_cons_self⟩ (ih fun o ho => hp o (List.mem_cons_of_mem _ ho))

/-- a successful `_matmul_broadcast_shape` on `(sb…, m, n) × (db…, n, p)` yields the broadcast of the batch shapes -/
theorem matmulBroadcastShape_batch (sb db bshape : List Nat) (m n p : Nat)
    (h : matmulBroadcastShape (sb ++ [m, n]) (db ++ [n, p]) = .ok (bshape ++ [m, p])) :
    broadcastShapes sb db = some bshape := by
  have h1 : ¬ ((db ++ [n, p]).length = 1) := by simp
  have e1 : (sb ++ [m, n]).length - 2 = sb.length := app2_length_sub _ _ _
  have e2 : (db ++ [n, p]).length - 2 = db.length := app2_length_sub _ _ _
  have e3 : (sb ++ [m, n]).length - 1 = sb.length + 1 := by simp
  have e4 : (db ++ [n, p]).length - 1 = db.length + 1 := by simp
  simp only [matmulBroadcastShape, if_neg h1, e1, e2, e3, e4, app2_get0, app2_get1, app2_take, ne_eq, not_true_eq_false,
    if_false] at h
  cases hbs : broadcastShapes sb db with
  | none => rw [hbs] at h; exact absurd h (by simp)
  | some bc =>
    rw [hbs] at h
    simp only [Except.ok.injEq] at h
    rw [List.append_cancel_right h]

variable {α : Type} [CommRing α]

/-- **`bdsmm` with broadcasting, end to end.**  For a batched sparse operand of shape `(sb…, m, n)` and a dense operand of shape
`(db…, n, p)`: if the code's own `_matmul_broadcast_shape` accepts the shapes with broadcast batch shape `bshape` (non-empty batch,
`m, n > 0`), and the stored indices of the sparse operand are inside its shape, then `bdsmm` returns a tensor of shape
`(bshape…, m, p)` with `out[b, i, c] = Σ_j S[(b right-aligned) mod sb, i, j] · D[restrict b, j, c]` — sparse batch dimensions of size 1
(and missing leading ones) are broadcast, which is `torch.matmul(sparse.to_dense(), dense)`.  No hypothesis about how the two batch
shapes relate is needed beyond the success of the shape function. -/
theorem bdsmm_broadcast_def (s : Sp α) (d : Tn α) (sb bshape db : List Nat) (m n p : Nat)
    (hsb : sb ≠ []) (hs : s.shape = sb ++ [m, n]) (hd : d.shape = db ++ [n, p])
    (hmb : matmulBroadcastShape s.shape d.shape = .ok (bshape ++ [m, p]))
    (hpos : ∀ o ∈ bshape, 0 < o) (hbox : EntsInBox s)
    (b : List Nat) (hb : InBox b bshape) (i c : Nat) (hi : i < m) (hn : 0 < n) :
    ∃ t, bdsmm true s d = .ok t ∧ t.shape = bshape ++ [m, p] ∧
      t.get (b ++ [i, c]) = sumN n fun j =>
        densify s.ents (List.zipWith (· % ·) ((b ++ [i, j]).drop (bshape.length - sb.length)) s.shape)
          * d.get (restrictIdx db b ++ [j, c]) := by
  have hbs := matmulBroadcastShape_batch sb db bshape m n p (by rw [← hs, ← hd]; exact hmb)
  obtain ⟨hle, hf⟩ := broadcastShapes_spec sb db bshape hbs
  have hf' := forall2_and_pos _ _ hf hpos
  have htail : List.Forall₂ (fun z o => (z = o ∨ z = 1) ∧ 0 < o) [m, n] [m, n] :=
    List.Forall₂.cons ⟨Or.inl rfl, by omega⟩ (List.Forall₂.cons ⟨Or.inl rfl, hn⟩ List.Forall₂.nil)
  have hbc : BcTo (List.replicate (bshape.length - sb.length) 1 ++ (sb ++ [m, n])) (bshape ++ [m, n]) := by
    rw [← List.append_assoc]
    exact List.rel_append hf' htail
  exact bdsmm_general_def s d sb bshape db m n p hsb hs hd hmb hle hbc hbox b hb i c hi hn

end LinOp.C20
