import LinOp.C20.Model
import Mathlib.Algebra.Ring.Defs

/-!
C20 — proofs about the sparse-tensor kernels of `LinOp.C20.Model`:
`sparse_repeat` (fixed / unchanged code), `sparse_getitem` (integer and slice steps), the
block-diagonal flattening of `bdsmm`, and the flat / unflat index round trip.
-/
namespace LinOp.C20.SparseAux

/-! ## list helpers -/

theorem getD_set_self (l : List Nat) (i v : Nat) (h : i < l.length) :
    (l.set i v).getD i 0 = v := by
  simp [List.getD_eq_getElem?_getD, h]

theorem set_getD_self (l : List Nat) (i : Nat) (h : i < l.length) :
    l.set i (l.getD i 0) = l := by
  simp [List.getD_eq_getElem?_getD, h]

theorem getD_insertIdx_self (l : List Nat) (i z : Nat) (h : i ≤ l.length) :
    (l.insertIdx i z).getD i 0 = z := by
  simp [List.getD_eq_getElem?_getD, List.getElem?_insertIdx_self, h]

theorem insertIdx_eraseIdx_getD (l : List Nat) (i : Nat) (h : i < l.length) :
    (l.eraseIdx i).insertIdx i (l.getD i 0) = l := by
  induction l generalizing i with
  | nil => simp at h
  | cons x t ih =>
    cases i with
    | zero => simp
    | succ j =>
      have hj : j < t.length := by simpa using h
      simpa using ih j hj

/-- an entry of copy `k` of `sparse_repeat` (fixed code) hits `idx` iff `k` is the quotient and
the entry sits at the remainder -/
theorem shift_eq_iff (e idx : List Nat) (i k sz : Nat) (hi : i < e.length)
    (hlen : idx.length = e.length) (he : e.getD i 0 < sz) :
    e.set i (e.getD i 0 + k * sz) = idx ↔
      (idx.getD i 0 / sz = k ∧ e = idx.set i (idx.getD i 0 % sz)) := by
  have hsz : 0 < sz := by omega
  constructor
  · intro h
    subst h
    rw [getD_set_self _ _ _ hi, Nat.add_mul_div_right _ _ hsz, Nat.add_mul_mod_self_right,
      Nat.div_eq_of_lt he, Nat.mod_eq_of_lt he, List.set_set, set_getD_self _ _ hi]
    exact ⟨by omega, rfl⟩
  · rintro ⟨hk, h⟩
    have hi' : i < idx.length := by omega
    have h2 : e.getD i 0 = idx.getD i 0 % sz := by
      have := congrArg (fun l => l.getD i 0) h
      simpa only [getD_set_self _ _ _ hi'] using this
    rw [h2, ← hk, Nat.mod_add_div', h, List.set_set, set_getD_self _ _ hi']

/-- the slice step of `sparse_getitem`: kept and shifted entry hits `ridx` iff the entry sits at
`ridx` shifted back -/
theorem slice_eq_iff (e ridx : List Nat) (i a b : Nat) (hi : i < e.length)
    (hlen : ridx.length = e.length) (hr : a + ridx.getD i 0 < b) :
    ((e.getD i 0 < b ∧ a ≤ e.getD i 0) ∧ e.set i (e.getD i 0 - a) = ridx) ↔
      e = ridx.set i (ridx.getD i 0 + a) := by
  have hi' : i < ridx.length := by omega
  constructor
  · rintro ⟨⟨_, h1⟩, h⟩
    subst h
    rw [getD_set_self _ _ _ hi, List.set_set, Nat.sub_add_cancel h1, set_getD_self _ _ hi]
  · intro h
    have h2 : e.getD i 0 = ridx.getD i 0 + a := by
      have := congrArg (fun l => l.getD i 0) h
      simpa only [getD_set_self _ _ _ hi'] using this
    refine ⟨⟨by omega, by omega⟩, ?_⟩
    rw [h2, Nat.add_sub_cancel, h, List.set_set, set_getD_self _ _ hi']

/-- the integer step of `sparse_getitem` -/
theorem int_eq_iff (e ridx : List Nat) (i z : Nat) (hi : i < e.length)
    (hlen : ridx.length + 1 = e.length) :
    (((e.getD i 0 : Nat) : Int) = (z : Int) ∧ e.eraseIdx i = ridx) ↔ e = ridx.insertIdx i z := by
  constructor
  · rintro ⟨h1, h⟩
    have h1' : e.getD i 0 = z := Int.ofNat_inj.1 h1
    subst h
    rw [← h1', insertIdx_eraseIdx_getD _ _ hi]
  · intro h
    subst h
    rw [getD_insertIdx_self _ _ _ (by omega), List.eraseIdx_insertIdx_self]
    exact ⟨rfl, rfl⟩

/-- uniqueness of quotient and remainder -/
theorem div_uniq (N a b r i : Nat) (hr : r < N) (hi : i < N) (h : r + a * N = b * N + i) :
    a = b ∧ r = i := by
  have hN : 0 < N := by omega
  have h1 : (r + a * N) / N = a := by
    rw [Nat.add_mul_div_right _ _ hN, Nat.div_eq_of_lt hr, Nat.zero_add]
  have h2 : (b * N + i) / N = b := by
    rw [Nat.add_comm, Nat.add_mul_div_right _ _ hN, Nat.div_eq_of_lt hi, Nat.zero_add]
  have hab : a = b := by rw [← h1, h, h2]
  subst hab
  exact ⟨rfl, by omega⟩

theorem flat_unflat_mod (shape : List Nat) (p : Nat) :
    flat shape (unflat shape p) = p % prod shape := by
  induction shape with
  | nil => simp [flat, prod, Nat.mod_one]
  | cons d ds ih =>
    simp only [flat, unflat, prod, ih]
    rw [Nat.mul_comm d (prod ds), Nat.mod_mul, Nat.mul_comm (p / prod ds % d), Nat.add_comm]

/-! ## `densify` -/

section densify

variable {α : Type} [AddCommMonoid α]

theorem densify_append (l₁ l₂ : Ents α) (idx : List Nat) :
    densify (l₁ ++ l₂) idx = densify l₁ idx + densify l₂ idx := by
  induction l₁ with
  | nil => simp [densify]
  | cons e t ih =>
    rcases e with ⟨ei, ev⟩
    simp only [List.cons_append, densify, ih, add_assoc]

/-- the "no entry kept" placeholder is zero everywhere -/
theorem densify_placeholder (n : Nat) (idx : List Nat) :
    densify [(List.replicate n 0, (0 : α))] idx = 0 := by
  simp [densify]

/-- filter, then re-index: only the entries at the preimage contribute -/
theorem densify_filter_map (ents : Ents α) (p : List Nat × α → Bool) (g : List Nat → List Nat)
    (a b : List Nat) (h : ∀ e ∈ ents, (p e = true ∧ g e.1 = a) ↔ e.1 = b) :
    densify ((ents.filter p).map fun e => (g e.1, e.2)) a = densify ents b := by
  induction ents with
  | nil => simp [densify]
  | cons e t ih =>
    have he := h e List.mem_cons_self
    have ih' := ih (fun e' h' => h e' (List.mem_cons_of_mem _ h'))
    rcases e with ⟨ei, ev⟩
    by_cases hp : p (ei, ev) = true
    · rw [List.filter_cons_of_pos hp]
      simp only [List.map_cons, densify, ih']
      by_cases h1 : ei = b
      · rw [if_pos (he.2 h1).2, if_pos h1]
      · rw [if_neg (fun hh => h1 (he.1 ⟨hp, hh⟩)), if_neg h1]
    · rw [List.filter_cons_of_neg hp]
      simp only [densify, ih']
      rw [if_neg (fun hh => hp (he.2 hh).1), zero_add]

/-- one copy of `sparse_repeat` (fixed code) -/
theorem densify_shift (ents : Ents α) (idx : List Nat) (i k sz n : Nat) (hi : i < n)
    (hlen : idx.length = n) (hents : ∀ e ∈ ents, e.1.length = n ∧ e.1.getD i 0 < sz) :
    densify (ents.map fun e => (e.1.set i (e.1.getD i 0 + k * sz), e.2)) idx =
      if idx.getD i 0 / sz = k then densify ents (idx.set i (idx.getD i 0 % sz)) else 0 := by
  induction ents with
  | nil => simp [densify]
  | cons e t ih =>
    have ih' := ih (fun e' h' => hents e' (List.mem_cons_of_mem _ h'))
    rcases e with ⟨ei, ev⟩
    have he : ei.length = n ∧ ei.getD i 0 < sz := hents (ei, ev) List.mem_cons_self
    simp only [List.map_cons, densify, ih']
    have hiff := shift_eq_iff ei idx i k sz (by omega) (by omega) he.2
    by_cases hk : idx.getD i 0 / sz = k
    · simp only [if_pos hk]
      by_cases h1 : ei = idx.set i (idx.getD i 0 % sz)
      · rw [if_pos (hiff.2 ⟨hk, h1⟩), if_pos h1]
      · rw [if_neg (fun hh => h1 (hiff.1 hh).2), if_neg h1]
    · simp only [if_neg hk]
      rw [if_neg (fun hh => hk (hiff.1 hh).1), zero_add]

/-- summing the copies: exactly copy `q` contributes -/
theorem densify_flatMap_range (f : Nat → Ents α) (idx : List Nat) (q : Nat) (X : α) (rep : Nat)
    (h : ∀ k, densify (f k) idx = if q = k then X else 0) :
    densify ((List.range rep).flatMap f) idx = if q < rep then X else 0 := by
  induction rep with
  | zero => simp [densify]
  | succ r ih =>
    rw [List.range_succ, List.flatMap_append, densify_append, ih, List.flatMap_cons,
      List.flatMap_nil, List.append_nil, h]
    by_cases h1 : q < r
    · rw [if_pos h1, if_neg (by omega), if_pos (by omega), add_zero]
    · by_cases h2 : q = r
      · rw [if_neg h1, if_pos h2, if_pos (by omega), zero_add]
      · rw [if_neg h1, if_neg h2, if_neg (by omega), add_zero]

end densify

end LinOp.C20.SparseAux

namespace LinOp.C20

open SparseAux

/-! ## `sparse_repeat` -/

section repeat_

variable {α : Type}

/-- 1. sparse_repeat, one dimension, FIXED code (offset k * size): dense `repeat` semantics -/
theorem sparse_repeat_def [AddCommMonoid α] (i rep : Nat) (s : Sp α) (idx : List Nat)
    (hi : i < s.shape.length) (hlen : idx.length = s.shape.length)
    (hents : ∀ e ∈ s.ents, e.1.length = s.shape.length ∧ e.1.getD i 0 < s.shape.getD i 0)
    (hidx : idx.getD i 0 < rep * s.shape.getD i 0) :
    densify (repeatDim true i rep s).ents idx
      = densify s.ents (idx.set i (idx.getD i 0 % s.shape.getD i 0)) := by
  have hsz : 0 < s.shape.getD i 0 := by
    rcases Nat.eq_zero_or_pos (s.shape.getD i 0) with h | h
    · rw [h, Nat.mul_zero] at hidx
      exact absurd hidx (Nat.not_lt_zero _)
    · exact h
  by_cases hrep : rep > 1
  · simp only [repeatDim, if_pos hrep, if_true]
    rw [densify_flatMap_range _ idx (idx.getD i 0 / s.shape.getD i 0)
      (densify s.ents (idx.set i (idx.getD i 0 % s.shape.getD i 0))) rep]
    · rw [if_pos ((Nat.div_lt_iff_lt_mul hsz).2 hidx)]
    · intro k
      exact densify_shift s.ents idx i k (s.shape.getD i 0) s.shape.length hi hlen hents
  · have hrep1 : rep = 1 := by
      rcases Nat.eq_zero_or_pos rep with h | h
      · rw [h, Nat.zero_mul] at hidx
        exact absurd hidx (Nat.not_lt_zero _)
      · omega
    subst hrep1
    rw [Nat.one_mul] at hidx
    simp only [repeatDim, if_neg hrep, Nat.mod_eq_of_lt hidx]
    rw [set_getD_self _ _ (by omega)]

/-- 2. the UNCHANGED code (offset k) is wrong on a dimension of size 2 (defect D28) -/
theorem sparse_repeat_counterexample :
    let s : Sp Int := ⟨[2, 2], [([0, 0], 1), ([1, 0], 2), ([1, 1], 3)]⟩
    densify (sparseRepeat false s [2, 1]).ents [1, 0] = 3 ∧ densify (sparseRepeat true s [2, 1]).ents [1, 0] = 2
      ∧ densify (sparseRepeat true s [2, 1]).ents [2, 0] = 1 ∧ densify (sparseRepeat false s [2, 1]).ents [2, 0] = 2 := by
  decide

/-- 3. the unchanged code is right when the repeated dimension has size 1 -/
theorem sparse_repeat_partial (i rep : Nat) (s : Sp α) (h : s.shape.getD i 0 = 1) :
    repeatDim false i rep s = repeatDim true i rep s := by
  simp only [repeatDim, h, Nat.mul_one, Bool.false_eq_true, if_false, if_true]

end repeat_

/-! ## `sparse_getitem` -/

section getitem

variable {α : Type}

/-- 4. sparse_getitem, integer step -/
theorem sparse_getitem_int_def [AddCommMonoid α] (i : Nat) (z : Nat) (s : Sp α) (ridx : List Nat)
    (hi : i < s.shape.length) (hlen : ridx.length + 1 = s.shape.length)
    (hents : ∀ e ∈ s.ents, e.1.length = s.shape.length) :
    ∃ s', getitemStep i (.int (z : Int)) s = .ok s' ∧ s'.shape = s.shape.eraseIdx i ∧
      densify s'.ents ridx = densify s.ents (ridx.insertIdx i z) := by
  have key : ∀ e ∈ s.ents,
      ((decide (((e.1.getD i 0 : Nat) : Int) = (z : Int)) = true ∧ e.1.eraseIdx i = ridx)
        ↔ e.1 = ridx.insertIdx i z) := by
    intro e he
    rw [decide_eq_true_eq]
    exact int_eq_iff e.1 ridx i z (by rw [hents e he]; exact hi) (by rw [hents e he]; exact hlen)
  have hd := densify_filter_map s.ents
    (fun e => decide (((e.1.getD i 0 : Nat) : Int) = (z : Int))) (fun l => l.eraseIdx i)
    ridx (ridx.insertIdx i z) key
  by_cases hk : (s.ents.filter fun e => decide (((e.1.getD i 0 : Nat) : Int) = (z : Int))).isEmpty = true
  · refine ⟨⟨s.shape.eraseIdx i, [(List.replicate (s.shape.eraseIdx i).length 0, 0)]⟩, ?_, rfl, ?_⟩
    · simp only [getitemStep, if_pos hk]
    · rw [List.isEmpty_iff] at hk
      rw [hk] at hd
      rw [densify_placeholder, ← hd]
      rfl
  · refine ⟨⟨s.shape.eraseIdx i, (s.ents.filter fun e =>
        decide (((e.1.getD i 0 : Nat) : Int) = (z : Int))).map fun e => (e.1.eraseIdx i, e.2)⟩,
      ?_, rfl, hd⟩
    simp only [getitemStep, if_neg hk]

/-- 5. sparse_getitem, slice step (step 1) -/
theorem sparse_getitem_slice_def [AddCommMonoid α] (i : Nat) (start stop : Option Int) (s : Sp α)
    (ridx : List Nat)
    (hi : i < s.shape.length) (hlen : ridx.length = s.shape.length)
    (hents : ∀ e ∈ s.ents, e.1.length = s.shape.length)
    (hr : sliceBound (s.shape.getD i 0) start 0 + ridx.getD i 0 < sliceBound (s.shape.getD i 0) stop (s.shape.getD i 0)) :
    ∃ s', getitemStep i (.slice start stop none) s = .ok s' ∧
      s'.shape = s.shape.set i (sliceBound (s.shape.getD i 0) stop (s.shape.getD i 0) - sliceBound (s.shape.getD i 0) start 0) ∧
      densify s'.ents ridx = densify s.ents (ridx.set i (ridx.getD i 0 + sliceBound (s.shape.getD i 0) start 0)) := by
  generalize ha : sliceBound (s.shape.getD i 0) start 0 = a at hr ⊢
  generalize hb : sliceBound (s.shape.getD i 0) stop (s.shape.getD i 0) = b at hr ⊢
  have key : ∀ e ∈ s.ents,
      ((decide (e.1.getD i 0 < b ∧ a ≤ e.1.getD i 0) = true ∧ e.1.set i (e.1.getD i 0 - a) = ridx)
        ↔ e.1 = ridx.set i (ridx.getD i 0 + a)) := by
    intro e he
    rw [decide_eq_true_eq]
    exact slice_eq_iff e.1 ridx i a b (by rw [hents e he]; exact hi) (by rw [hents e he]; exact hlen) hr
  have hd := densify_filter_map s.ents
    (fun e => decide (e.1.getD i 0 < b ∧ a ≤ e.1.getD i 0)) (fun l => l.set i (l.getD i 0 - a))
    ridx (ridx.set i (ridx.getD i 0 + a)) key
  have hstep : ¬ ((none : Option Int).getD 1 ≠ 1) := by simp
  by_cases hk : (s.ents.filter fun e => decide (e.1.getD i 0 < b ∧ a ≤ e.1.getD i 0)).isEmpty = true
  · refine ⟨⟨s.shape.set i (b - a), [(List.replicate (s.shape.set i (b - a)).length 0, 0)]⟩, ?_, rfl, ?_⟩
    · simp only [getitemStep, ha, hb, if_neg hstep, if_pos hk]
    · rw [List.isEmpty_iff] at hk
      rw [hk] at hd
      rw [densify_placeholder, ← hd]
      rfl
  · refine ⟨⟨s.shape.set i (b - a), (s.ents.filter fun e =>
        decide (e.1.getD i 0 < b ∧ a ≤ e.1.getD i 0)).map fun e => (e.1.set i (e.1.getD i 0 - a), e.2)⟩,
      ?_, rfl, hd⟩
    simp only [getitemStep, ha, hb, if_neg hstep, if_neg hk]

end getitem

/-! ## block-diagonal flattening, flat / unflat -/

section blockdiag

variable {α : Type} [CommRing α]

/-- 6. block-diagonal flattening used by bdsmm -/
theorem blockdiag_spmm (bshape : List Nat) (numRows numCols : Nat) (ents : Ents α) (d2 : Nat → Nat → α) (fb i c : Nat)
    (hi : i < numRows)
    (hents : ∀ e ∈ ents, e.1.getD bshape.length 0 < numRows ∧ e.1.getD (bshape.length + 1) 0 < numCols) :
    spmm (blockDiagEnts bshape numRows numCols ents) d2 (fb * numRows + i) c =
      spmm ((ents.filter fun e => flat bshape (e.1.take bshape.length) = fb ∧ e.1.getD bshape.length 0 = i)
              |>.map fun e => ([e.1.getD bshape.length 0, e.1.getD (bshape.length + 1) 0], e.2))
           (fun j c => d2 (fb * numCols + j) c) i c := by
  induction ents with
  | nil => simp [blockDiagEnts, spmm]
  | cons e t ih =>
    have he := hents e List.mem_cons_self
    have ih' := ih (fun e' h' => hents e' (List.mem_cons_of_mem _ h'))
    rcases e with ⟨ei, ev⟩
    simp only [blockDiagEnts, List.map_cons] at ih' ⊢
    by_cases hp : flat bshape (ei.take bshape.length) = fb ∧ ei.getD bshape.length 0 = i
    · rw [List.filter_cons_of_pos (by simpa using hp)]
      simp only [List.map_cons, spmm, ih', List.getD_cons_zero, List.getD_cons_succ]
      rw [if_pos (by rw [hp.1, hp.2, Nat.add_comm]), if_pos hp.2, hp.1,
        Nat.add_comm (ei.getD (bshape.length + 1) 0)]
    · rw [List.filter_cons_of_neg (by simpa using hp)]
      simp only [spmm, ih', List.getD_cons_zero]
      rw [if_neg, zero_add]
      intro hh
      have := div_uniq numRows _ fb _ i he.1 hi hh
      exact hp this

end blockdiag

/-- 7. flat/unflat round trip on the box -/
theorem flat_unflat (shape : List Nat) (p : Nat) (hp : p < prod shape) :
    flat shape (unflat shape p) = p := by
  rw [flat_unflat_mod, Nat.mod_eq_of_lt hp]

end LinOp.C20
