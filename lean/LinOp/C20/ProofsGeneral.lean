import LinOp.C20.ProofsCompose
/-! C20 (extension session 5) — `bdsmm` for GENUINELY DIFFERENT batch shapes on both sides, composed end to end:
`sparse_repeat` with the repeat sizes `output_size // sparse_size` (new leading dimensions + repetition of size-1 dimensions)
followed by the block-diagonal flattening gives `out[b] = S[b right-aligned, modulo the sparse batch shape] · D[restrict b]`. -/
namespace LinOp.C20

open BdsmmAux RepeatAux

variable {α : Type}

/-- shape bookkeeping of `sparse_repeat`'s loop -/
def repShapeLoop : Nat → List Nat → List Nat → List Nat
  | _, [], sh => sh
  | i, rep :: rest, sh => repShapeLoop (i + 1) rest (if rep > 1 then sh.set i (rep * sh.getD i 0) else sh)

theorem repeat_loop_shape (reps : List Nat) : ∀ (i : Nat) (s : Sp α),
    (repeatLoop true i reps s).shape = repShapeLoop i reps s.shape := by
  induction reps with
  | nil => intro i s; rfl
  | cons rep rest ih =>
    intro i s
    simp only [repeatLoop, repShapeLoop]
    rw [ih, repeatDim_shape]

/-- broadcast relation on full (padded, right-aligned) shapes: every source size equals the target size or is 1, and the
target sizes are positive (non-empty batch) -/
def BcTo (Z O : List Nat) : Prop := List.Forall₂ (fun z o => (z = o ∨ z = 1) ∧ 0 < o) Z O

theorem BcTo.length_eq {Z O : List Nat} (h : BcTo Z O) : Z.length = O.length := List.Forall₂.length_eq h

/-- repeating with `output_size // sparse_size` turns the padded sparse shape into the output shape -/
theorem repShapeLoop_bc (Z O : List Nat) (h : BcTo Z O) : ∀ P : List Nat,
    repShapeLoop P.length (List.zipWith (fun o z => o / z) O Z) (P ++ Z) = P ++ O := by
  induction h with
  | nil => intro P; simp [repShapeLoop]
  | @cons z o Z' O' hzo _ ih =>
    intro P
    simp only [List.zipWith_cons_cons, repShapeLoop]
    have hg : (P ++ z :: Z').getD P.length 0 = z := by simp [List.getD_eq_getElem?_getD]
    have hset : ∀ v, (P ++ z :: Z').set P.length v = P ++ v :: Z' := by
      intro v; simp
    have key : (if o / z > 1 then (P ++ z :: Z').set P.length (o / z * (P ++ z :: Z').getD P.length 0) else P ++ z :: Z')
        = P ++ o :: Z' := by
      rcases hzo with ⟨h1 | h1, hpos⟩
      · subst h1
        rw [Nat.div_self hpos]
        simp
      · subst h1
        rw [Nat.div_one]
        by_cases ho : o > 1
        · rw [if_pos ho, hg, hset, Nat.mul_one]
        · have h1 : o = 1 := by omega
          subst h1
          simp
    rw [key]
    have h2 := ih (P ++ [o])
    simpa [List.append_assoc] using h2

/-- inside the output box every index is below `repeat_size * sparse_size` -/
theorem hidx_of_bc (Z O : List Nat) (h : BcTo Z O) : ∀ (idx : List Nat), InBox idx O → ∀ k,
    k < (List.zipWith (fun o z => o / z) O Z).length →
    idx.getD k 0 < (List.zipWith (fun o z => o / z) O Z).getD k 0 * Z.getD k 0 := by
  induction h with
  | nil => intro idx _ k hk; simp at hk
  | @cons z o Z' O' hzo _ ih =>
    intro idx hbox k hk
    cases hbox with
    | @cons x _ t _ hx ht =>
      cases k with
      | zero =>
        simp only [List.zipWith_cons_cons, List.getD_cons_zero]
        rcases hzo with ⟨h1 | h1, hpos⟩
        · subst h1; rw [Nat.div_self hpos, Nat.one_mul]; exact hx
        · subst h1; rw [Nat.div_one, Nat.mul_one]; exact hx
      | succ k' =>
        simp only [List.zipWith_cons_cons, List.getD_cons_succ]
        exact ih t ht k' (by simpa using hk)

/-- new leading dimensions of size 1 with index 0 (first step of `sparse_repeat`) -/
def padSp (off : Nat) (s : Sp α) : Sp α :=
  ⟨List.replicate off 1 ++ s.shape, s.ents.map fun e => (List.replicate off 0 ++ e.1, e.2)⟩

theorem padSp_zero (s : Sp α) : padSp 0 s = s := by
  cases s with
  | mk sh ents =>
    simp only [padSp, List.replicate_zero, List.nil_append]
    congr 1
    induction ents with
    | nil => rfl
    | cons e t ih => simp only [List.map_cons, ih]

theorem sparseRepeat_eq_loop (s : Sp α) (reps : List Nat) (off : Nat) (h : reps.length = off + s.shape.length) :
    sparseRepeat true s reps = repeatLoop true 0 reps (padSp off s) := by
  unfold sparseRepeat
  by_cases hgt : reps.length > s.shape.length
  · have e : reps.length - s.shape.length = off := by omega
    simp only [if_pos hgt, e, padSp]
  · have e : off = 0 := by omega
    subst e
    simp only [if_neg hgt, padSp_zero]

theorem zipWith_mod_pad : ∀ (off : Nat) (idx S : List Nat), off ≤ idx.length →
    List.zipWith (· % ·) idx (List.replicate off 1 ++ S) = List.replicate off 0 ++ List.zipWith (· % ·) (idx.drop off) S := by
  intro off
  induction off with
  | zero => intro idx S _; simp
  | succ k ih =>
    intro idx S h
    cases idx with
    | nil => simp at h
    | cons x t =>
      simp only [List.replicate_succ, List.cons_append, List.zipWith_cons_cons, List.drop_succ_cons, Nat.mod_one]
      rw [ih t S (by simpa using h)]

theorem densify_pad [AddCommMonoid α] (off : Nat) (ents : Ents α) (r : List Nat) :
    densify (ents.map fun e => (List.replicate off 0 ++ e.1, e.2)) (List.replicate off 0 ++ r) = densify ents r := by
  induction ents with
  | nil => rfl
  | cons e t ih =>
    simp only [List.map_cons, densify, ih, List.append_cancel_left_eq]

theorem modAt_eq_zipWith (Z idx : List Nat) (h : idx.length = Z.length) :
    modAt 0 idx.length Z idx = List.zipWith (· % ·) idx Z := by
  apply List.ext_getElem
  · simp [modAt, h]
  · intro q h1 h2
    have hq : q < idx.length := by simpa [modAt] using h1
    have hq2 : q < Z.length := by omega
    simp [modAt, hq, hq2, List.getD_eq_getElem?_getD]

theorem inBox_app2 {b bshape : List Nat} (hb : InBox b bshape) (i j m n : Nat) (hi : i < m) (hj : j < n) :
    InBox (b ++ [i, j]) (bshape ++ [m, n]) := by
  induction hb with
  | nil => exact List.Forall₂.cons hi (List.Forall₂.cons hj List.Forall₂.nil)
  | cons h _ ih => exact List.Forall₂.cons h ih

theorem bdsmmReps_general (sb bshape : List Nat) (m n p : Nat) (_hle : sb.length ≤ bshape.length) :
    bdsmmReps (sb ++ [m, n]) (bshape ++ [m, p])
      = List.zipWith (fun o z => o / z) (bshape ++ [m, n]) (List.replicate (bshape.length - sb.length) 1 ++ (sb ++ [m, n])) := by
  have e1 : (bshape ++ [m, p]).length - (sb ++ [m, n]).length = bshape.length - sb.length := by simp
  have e2 : (sb ++ [m, n]).drop sb.length = [m, n] := by simp
  simp only [bdsmmReps, app2_length_sub, app2_take, e1, e2]

variable [CommRing α]

/-- `bdsmm`, batched sparse × dense with GENUINELY DIFFERENT batch shapes (sparse batch of lower rank than the output batch,
size-1 sparse batch dimensions repeated, dense batch broadcast independently) — the whole function: `_matmul_broadcast_shape`,
the repeat sizes `output_size // sparse_size`, `sparse_repeat` (new leading dimensions and the loop), the block-diagonal
flattening, the flattened expanded dense operand, `torch.dsmm`'s contract and the final `view`:
`out[b, i, c] = Σ_j S[(b right-aligned) mod sparse batch shape, i, j] · D[restrict b, j, c]` for every non-empty batch shape. -/
theorem bdsmm_general_def (s : Sp α) (d : Tn α) (sb bshape db : List Nat) (m n p : Nat)
    (hsb : sb ≠ []) (hs : s.shape = sb ++ [m, n]) (hd : d.shape = db ++ [n, p])
    (hmb : matmulBroadcastShape s.shape d.shape = .ok (bshape ++ [m, p]))
    (hle : sb.length ≤ bshape.length)
    (hbc : BcTo (List.replicate (bshape.length - sb.length) 1 ++ (sb ++ [m, n])) (bshape ++ [m, n]))
    (hbox : EntsInBox s)
    (b : List Nat) (hb : InBox b bshape) (i c : Nat) (hi : i < m) (hn : 0 < n) :
    ∃ t, bdsmm true s d = .ok t ∧ t.shape = bshape ++ [m, p] ∧
      t.get (b ++ [i, c]) = sumN n fun j =>
        densify s.ents (List.zipWith (· % ·) ((b ++ [i, j]).drop (bshape.length - sb.length)) s.shape)
          * d.get (restrictIdx db b ++ [j, c]) := by
  have hsl : s.shape.length > 2 := by rw [hs]; exact app2_length_gt _ _ _ hsb
  have hreps : bdsmmReps s.shape (bshape ++ [m, p])
      = List.zipWith (fun o z => o / z) (bshape ++ [m, n]) (List.replicate (bshape.length - sb.length) 1 ++ (sb ++ [m, n])) := by
    rw [hs]; exact bdsmmReps_general sb bshape m n p hle
  have hZlen := hbc.length_eq
  have hrl : (bdsmmReps s.shape (bshape ++ [m, p])).length = (bshape.length - sb.length) + s.shape.length := by
    rw [hreps, hs]; simp; omega
  have hloop := sparseRepeat_eq_loop s _ (bshape.length - sb.length) hrl
  have hpadshape : (padSp (bshape.length - sb.length) s).shape
      = List.replicate (bshape.length - sb.length) 1 ++ (sb ++ [m, n]) := by simp only [padSp, hs]
  have hs' : (sparseRepeat true s (bdsmmReps s.shape (bshape ++ [m, p]))).shape = bshape ++ [m, n] := by
    rw [hloop, repeat_loop_shape, hpadshape, hreps]
    have h0 := repShapeLoop_bc _ _ hbc []
    simpa using h0
  obtain ⟨t, ht, hsh, hget⟩ := bdsmm_bcast_wf_def s d bshape db m n p hsl hd hmb (by rw [hs]; simp; omega) hs' hbox b hb i c hi hn
  refine ⟨t, ht, hsh, ?_⟩
  rw [hget]
  apply sumN_congr
  intro j hj
  congr 1
  have hidxlen : (b ++ [i, j]).length = (padSp (bshape.length - sb.length) s).shape.length := by
    rw [hpadshape, hZlen]; simp [inBox_length hb]
  have hrl2 : (bdsmmReps s.shape (bshape ++ [m, p])).length = (b ++ [i, j]).length := by
    rw [hidxlen, hpadshape, hrl, hs]; simp
  rw [hloop, repeat_loop_def _ 0 (padSp (bshape.length - sb.length) s) (b ++ [i, j]) (by rw [← hidxlen, hrl2]; omega) hidxlen
    (pad_inBox s _ hbox) ?_]
  · rw [hrl2, modAt_eq_zipWith _ _ hidxlen, hpadshape,
      zipWith_mod_pad _ _ _ (by simp [inBox_length hb]; omega)]
    show densify (s.ents.map fun e => (List.replicate (bshape.length - sb.length) 0 ++ e.1, e.2)) _ = _
    rw [densify_pad, hs]
  · intro k hk
    rw [hpadshape]
    simp only [Nat.zero_add]
    rw [hreps] at hk ⊢
    exact hidx_of_bc _ _ hbc (b ++ [i, j]) (inBox_app2 hb i j m n hi hj) k hk

end LinOp.C20
