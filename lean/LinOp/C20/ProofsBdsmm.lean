import LinOp.C20.ProofsSparse
import LinOp.C20.ProofsInterp
/-! C20 — batched `bdsmm` equals the per-batch product, for every batch shape. -/
namespace LinOp.C20

/-- multi-index inside the box of a shape -/
def InBox (idx shape : List Nat) : Prop := List.Forall₂ (fun i d => i < d) idx shape

namespace BdsmmAux

theorem inBox_length {b sh : List Nat} (h : InBox b sh) : b.length = sh.length := List.Forall₂.length_eq h

theorem app2_length_sub (l : List Nat) (x y : Nat) : (l ++ [x, y]).length - 2 = l.length := by simp
theorem app2_take (l : List Nat) (x y : Nat) : (l ++ [x, y]).take l.length = l := by simp
theorem app2_get0 (l : List Nat) (x y : Nat) : (l ++ [x, y]).getD l.length 0 = x := by simp
theorem app2_get1 (l : List Nat) (x y : Nat) : (l ++ [x, y]).getD (l.length + 1) 0 = y := by
  simp [List.getD_eq_getElem?_getD, List.getElem?_append_right]
theorem app2_length_gt (l : List Nat) (x y : Nat) (h : l ≠ []) : (l ++ [x, y]).length > 2 := by
  have : 0 < l.length := List.length_pos_of_ne_nil h
  simp; omega

theorem unflat_add_mul (ds : List Nat) (f a : Nat) : unflat ds (f + a * prod ds) = unflat ds f := by
  induction ds generalizing a with
  | nil => rfl
  | cons e es ih =>
    simp only [unflat, prod]
    have h2 : f + a * (e * prod es) = f + (a * e) * prod es := by ring
    rw [h2, ih (a * e)]
    congr 1
    by_cases hP : prod es = 0
    · simp [hP]
    · rw [Nat.add_mul_div_right _ _ (Nat.pos_of_ne_zero hP), Nat.add_mul_mod_self_right]

theorem flat_lt {b sh : List Nat} (h : InBox b sh) : flat sh b < prod sh := by
  induction h with
  | nil => simp [flat, prod]
  | @cons i d is ds hid _ ih =>
    simp only [flat, prod]
    calc i * prod ds + flat ds is < i * prod ds + prod ds := by omega
      _ = (i + 1) * prod ds := by ring
      _ ≤ d * prod ds := Nat.mul_le_mul_right _ hid

theorem unflat_flat {b sh : List Nat} (h : InBox b sh) : unflat sh (flat sh b) = b := by
  induction h with
  | nil => rfl
  | @cons i d is ds hid hrest ih =>
    have hf := flat_lt hrest
    simp only [flat, unflat]
    have hpos : 0 < prod ds := by omega
    congr 1
    · rw [Nat.add_comm, Nat.add_mul_div_right _ _ hpos, Nat.div_eq_of_lt hf, Nat.zero_add, Nat.mod_eq_of_lt hid]
    · rw [Nat.add_comm, unflat_add_mul]
      exact ih

variable {α' : Type}

theorem bcastRev_self (l : List Nat) : bcastRev l l = some l := by
  induction l with
  | nil => rfl
  | cons x t ih => simp [bcastRev, ih]

theorem broadcastShapes_self (l : List Nat) : broadcastShapes l l = some l := by
  simp [broadcastShapes, bcastRev_self]

theorem matmulBroadcastShape_same (bshape : List Nat) (m n p : Nat) (hb : bshape ≠ []) :
    matmulBroadcastShape (bshape ++ [m, n]) (bshape ++ [n, p]) = .ok (bshape ++ [m, p]) := by
  have h1 : ¬ ((bshape ++ [n, p]).length = 1) := by
    have := app2_length_gt bshape n p hb; omega
  have e1 : (bshape ++ [m, n]).length - 2 = bshape.length := app2_length_sub _ _ _
  have e2 : (bshape ++ [n, p]).length - 2 = bshape.length := app2_length_sub _ _ _
  have e3 : (bshape ++ [m, n]).length - 1 = bshape.length + 1 := by simp
  have e4 : (bshape ++ [n, p]).length - 1 = bshape.length + 1 := by simp
  simp only [matmulBroadcastShape, if_neg h1, e1, e2, e3, e4, app2_get0, app2_get1, app2_take, ne_eq,
    not_true_eq_false, if_false, broadcastShapes_self]

theorem broadcastShapes_nil (l : List Nat) : broadcastShapes l [] = some l := by
  cases h : l.reverse with
  | nil => simp [broadcastShapes, bcastRev, h, List.reverse_eq_nil_iff.mp h]
  | cons x t =>
    have : l = (x :: t).reverse := by rw [← h, List.reverse_reverse]
    simp [broadcastShapes, bcastRev, h, this]

theorem matmulBroadcastShape_dense2d (bshape : List Nat) (m n p : Nat) :
    matmulBroadcastShape (bshape ++ [m, n]) [n, p] = .ok (bshape ++ [m, p]) := by
  have e1 : (bshape ++ [m, n]).length - 2 = bshape.length := app2_length_sub _ _ _
  have e3 : (bshape ++ [m, n]).length - 1 = bshape.length + 1 := by simp
  simp [matmulBroadcastShape, e1, e3, app2_get0, app2_get1, app2_take, broadcastShapes_nil]

theorem repeatDim_le_one (fixed : Bool) (i rep : Nat) (s : Sp α') (h : rep ≤ 1) : repeatDim fixed i rep s = s := by
  simp [repeatDim, Nat.not_lt.mpr h]

theorem repeatLoop_id (fixed : Bool) (i : Nat) (reps : List Nat) (s : Sp α') (h : ∀ r ∈ reps, r ≤ 1) :
    repeatLoop fixed i reps s = s := by
  induction reps generalizing i with
  | nil => rfl
  | cons r rs ih =>
    simp only [repeatLoop]
    rw [repeatDim_le_one fixed i r s (h r List.mem_cons_self)]
    exact ih (i + 1) (fun r' hr' => h r' (List.mem_cons_of_mem _ hr'))

theorem sparseRepeat_self_div (fixed : Bool) (s : Sp α') :
    sparseRepeat fixed s (List.zipWith (fun o z => o / z) s.shape s.shape) = s := by
  have hl : (List.zipWith (fun o z => o / z) s.shape s.shape).length = s.shape.length := by simp
  simp only [sparseRepeat, hl, Nat.lt_irrefl, if_false, gt_iff_lt]
  apply repeatLoop_id
  intro r hr
  rw [List.zipWith_self, List.mem_map] at hr
  obtain ⟨x, _, rfl⟩ := hr
  by_cases hx : x = 0
  · simp [hx]
  · rw [Nat.div_self (Nat.pos_of_ne_zero hx)]

theorem restrictIdx_inBox {b sh : List Nat} (h : InBox b sh) : restrictIdx sh b = b := by
  have hlen := inBox_length h
  simp only [restrictIdx, hlen, Nat.sub_self, List.drop_zero]
  induction h with
  | nil => rfl
  | @cons i d is ds hid hrest ih =>
    simp only [List.zipWith_cons_cons]
    rw [ih (inBox_length hrest)]
    by_cases hd : d = 1
    · subst hd; simp; omega
    · simp [hd]

theorem eq_take_app2 (l : List Nat) (k : Nat) (h : l.length = k + 2) :
    l = l.take k ++ [l.getD k 0, l.getD (k + 1) 0] := by
  apply List.ext_getElem
  · simp [h]
  · intro q h1 h2
    by_cases hq : q < k
    · simp [List.getElem_append_left, hq, h]
    · have : q = k ∨ q = k + 1 := by omega
      rcases this with rfl | rfl <;> simp [List.getElem_append_right, h, List.getD_eq_getElem?_getD]

end BdsmmAux

open BdsmmAux
variable {α : Type} [CommRing α]

/-- 2-D sparse × batched dense (second branch), every batch shape `bshape ≠ []` -/
theorem bdsmm_2d_batched_def (fixed : Bool) (s : Sp α) (d : Tn α) (bshape : List Nat) (m n p : Nat)
    (hb : bshape ≠ []) (hs : s.shape = [m, n]) (hd : d.shape = bshape ++ [n, p])
    (hents : ∀ e ∈ s.ents, e.1.length = 2 ∧ e.1.getD 1 0 < n)
    (b : List Nat) (hbox : InBox b bshape) (i c : Nat) (hc : c < p) :
    ∃ t, bdsmm fixed s d = .ok t ∧ t.shape = bshape ++ [m, p] ∧
      t.get (b ++ [i, c]) = sumN n fun j => densify s.ents [i, j] * d.get (b ++ [j, c]) := by
  have hlen := inBox_length hbox
  refine ⟨⟨bshape ++ [m, p], fun o => spmm s.ents
      (fun j q => d.get (unflat bshape (q / p) ++ [j, q % p])) (o.getD bshape.length 0)
      (flat bshape (o.take bshape.length) * p + o.getD (bshape.length + 1) 0)⟩, ?_, rfl, ?_⟩
  · have h2 : ¬ ([m, n].length > 2) := by simp
    have h3 : (bshape ++ [n, p]).length > 2 := app2_length_gt _ _ _ hb
    simp only [bdsmm, hs, hd, h2, h3, if_false, if_true, app2_length_sub, app2_take, app2_get0, app2_get1]
    simp
  · show spmm s.ents _ ((b ++ [i, c]).getD bshape.length 0)
        (flat bshape ((b ++ [i, c]).take bshape.length) * p + (b ++ [i, c]).getD (bshape.length + 1) 0) = _
    rw [← hlen, app2_get0, app2_get1, app2_take, spmm_def _ _ _ _ n hents]
    apply sumN_congr
    intro j _
    congr 2
    rw [Nat.mul_comm (flat bshape b) p, Nat.mul_add_div (by omega : 0 < p), Nat.mul_add_mod,
      Nat.div_eq_of_lt hc, Nat.mod_eq_of_lt hc, Nat.add_zero, unflat_flat hbox]

/-- batched sparse × dense with the SAME batch shape (first branch: block-diagonal flattening), every batch shape -/
theorem bdsmm_batched_def (s : Sp α) (d : Tn α) (bshape : List Nat) (m n p : Nat)
    (hb : bshape ≠ []) (hs : s.shape = bshape ++ [m, n]) (hd : d.shape = bshape ++ [n, p])
    (hents : ∀ e ∈ s.ents, e.1.length = bshape.length + 2 ∧ InBox (e.1.take bshape.length) bshape ∧
               e.1.getD bshape.length 0 < m ∧ e.1.getD (bshape.length + 1) 0 < n)
    (b : List Nat) (hbox : InBox b bshape) (i c : Nat) (hi : i < m) :
    ∃ t, bdsmm true s d = .ok t ∧ t.shape = bshape ++ [m, p] ∧
      t.get (b ++ [i, c]) = sumN n fun j => densify s.ents (b ++ [i, j]) * d.get (b ++ [j, c]) := by
  have hlen := inBox_length hbox
  have hk : bshape.length = b.length := hlen.symm
  refine ⟨⟨bshape ++ [m, p], fun o => spmm (blockDiagEnts bshape m n s.ents)
      (fun q c => d.get (restrictIdx bshape (unflat bshape (q / n)) ++ [q % n, c]))
      (flat bshape (o.take bshape.length) * m + o.getD bshape.length 0) (o.getD (bshape.length + 1) 0)⟩, ?_, rfl, ?_⟩
  · have h3 : (bshape ++ [m, n]).length > 2 := app2_length_gt _ _ _ hb
    have hdrop : (bshape ++ [m, n]).drop bshape.length = [m, n] := by simp
    have hrepl : (bshape ++ [m, p]).length - (bshape ++ [m, n]).length = 0 := by simp
    have hrep := sparseRepeat_self_div true s
    rw [hs] at hrep
    simp only [bdsmm, hs, hd, h3, if_true, matmulBroadcastShape_same bshape m n p hb, app2_length_sub, app2_take,
      app2_get0, app2_get1, hdrop, hrepl, List.replicate_zero, List.nil_append, hrep]
  · show spmm (blockDiagEnts bshape m n s.ents) _
        (flat bshape ((b ++ [i, c]).take bshape.length) * m + (b ++ [i, c]).getD bshape.length 0)
        ((b ++ [i, c]).getD (bshape.length + 1) 0) = _
    rw [hk, app2_get0, app2_get1, app2_take]
    rw [blockdiag_spmm bshape m n s.ents _ (flat bshape b) i c hi (fun e he => ⟨(hents e he).2.2.1, (hents e he).2.2.2⟩)]
    rw [spmm_def _ _ i c n]
    · apply sumN_congr
      intro j hj
      congr 1
      · -- the filtered / re-indexed entries of batch b, row i densify to the entry (b, i, j)
        apply SparseAux.densify_filter_map s.ents
          (fun e => decide (flat bshape (e.1.take bshape.length) = flat bshape b ∧ e.1.getD bshape.length 0 = i))
          (fun l => [l.getD bshape.length 0, l.getD (bshape.length + 1) 0]) [i, j] (b ++ [i, j])
        intro e he
        obtain ⟨hl, hbx, _, _⟩ := hents e he
        rw [decide_eq_true_eq]
        constructor
        · rintro ⟨⟨hf, hrow⟩, hg⟩
          have htk : e.1.take bshape.length = b := by
            rw [← unflat_flat hbx, hf, unflat_flat hbox]
          have hg' : e.1.getD bshape.length 0 = i ∧ e.1.getD (bshape.length + 1) 0 = j := by
            simpa using hg
          rw [eq_take_app2 e.1 bshape.length hl, htk, hg'.1, hg'.2]
        · intro heq
          rw [heq, hk, app2_take, app2_get0, app2_get1]
          exact ⟨⟨rfl, rfl⟩, rfl⟩
      · -- the flattened dense operand at row fb * n + j is D[b, j, c]
        show d.get (restrictIdx bshape (unflat bshape ((flat bshape b * n + j) / n)) ++ [(flat bshape b * n + j) % n, c]) = _
        rw [Nat.mul_comm (flat bshape b) n, Nat.mul_add_div (by omega : 0 < n), Nat.mul_add_mod,
          Nat.div_eq_of_lt hj, Nat.mod_eq_of_lt hj, Nat.add_zero, unflat_flat hbox, restrictIdx_inBox hbox]
    · intro e he
      simp only [List.mem_map, List.mem_filter] at he
      obtain ⟨e0, ⟨he0, _⟩, rfl⟩ := he
      exact ⟨rfl, by simpa using (hents e0 he0).2.2.2⟩

/-- batched sparse × UNBATCHED dense (the dense operand is broadcast over every batch), every batch shape -/
theorem bdsmm_batched_dense2d_def (s : Sp α) (d : Tn α) (bshape : List Nat) (m n p : Nat)
    (hb : bshape ≠ []) (hs : s.shape = bshape ++ [m, n]) (hd : d.shape = [n, p])
    (hents : ∀ e ∈ s.ents, e.1.length = bshape.length + 2 ∧ InBox (e.1.take bshape.length) bshape ∧
               e.1.getD bshape.length 0 < m ∧ e.1.getD (bshape.length + 1) 0 < n)
    (b : List Nat) (hbox : InBox b bshape) (i c : Nat) (hi : i < m) :
    ∃ t, bdsmm true s d = .ok t ∧ t.shape = bshape ++ [m, p] ∧
      t.get (b ++ [i, c]) = sumN n fun j => densify s.ents (b ++ [i, j]) * d.get [j, c] := by
  have hlen := inBox_length hbox
  have hk : bshape.length = b.length := hlen.symm
  refine ⟨⟨bshape ++ [m, p], fun o => spmm (blockDiagEnts bshape m n s.ents)
      (fun q c => d.get (restrictIdx [] (unflat bshape (q / n)) ++ [q % n, c]))
      (flat bshape (o.take bshape.length) * m + o.getD bshape.length 0) (o.getD (bshape.length + 1) 0)⟩, ?_, rfl, ?_⟩
  · have h3 : (bshape ++ [m, n]).length > 2 := app2_length_gt _ _ _ hb
    have hdrop : (bshape ++ [m, n]).drop bshape.length = [m, n] := by simp
    have hrepl : (bshape ++ [m, p]).length - (bshape ++ [m, n]).length = 0 := by simp
    have hrep := sparseRepeat_self_div true s
    rw [hs] at hrep
    simp only [bdsmm, hs, hd, h3, if_true, matmulBroadcastShape_dense2d bshape m n p, app2_length_sub, app2_take,
      app2_get0, app2_get1, hdrop, hrepl, List.replicate_zero, List.nil_append, hrep]
    rfl
  · show spmm (blockDiagEnts bshape m n s.ents) _
        (flat bshape ((b ++ [i, c]).take bshape.length) * m + (b ++ [i, c]).getD bshape.length 0)
        ((b ++ [i, c]).getD (bshape.length + 1) 0) = _
    rw [hk, app2_get0, app2_get1, app2_take]
    rw [blockdiag_spmm bshape m n s.ents _ (flat bshape b) i c hi (fun e he => ⟨(hents e he).2.2.1, (hents e he).2.2.2⟩)]
    rw [spmm_def _ _ i c n]
    · apply sumN_congr
      intro j hj
      congr 1
      · -- the filtered / re-indexed entries of batch b, row i densify to the entry (b, i, j)
        apply SparseAux.densify_filter_map s.ents
          (fun e => decide (flat bshape (e.1.take bshape.length) = flat bshape b ∧ e.1.getD bshape.length 0 = i))
          (fun l => [l.getD bshape.length 0, l.getD (bshape.length + 1) 0]) [i, j] (b ++ [i, j])
        intro e he
        obtain ⟨hl, hbx, _, _⟩ := hents e he
        rw [decide_eq_true_eq]
        constructor
        · rintro ⟨⟨hf, hrow⟩, hg⟩
          have htk : e.1.take bshape.length = b := by
            rw [← unflat_flat hbx, hf, unflat_flat hbox]
          have hg' : e.1.getD bshape.length 0 = i ∧ e.1.getD (bshape.length + 1) 0 = j := by
            simpa using hg
          rw [eq_take_app2 e.1 bshape.length hl, htk, hg'.1, hg'.2]
        · intro heq
          rw [heq, hk, app2_take, app2_get0, app2_get1]
          exact ⟨⟨rfl, rfl⟩, rfl⟩
      · -- the flattened dense operand at row fb * n + j is D[b, j, c]
        show d.get (restrictIdx [] (unflat bshape ((flat bshape b * n + j) / n)) ++ [(flat bshape b * n + j) % n, c]) = _
        rw [Nat.mul_comm (flat bshape b) n, Nat.mul_add_div (by omega : 0 < n), Nat.mul_add_mod,
          Nat.div_eq_of_lt hj, Nat.mod_eq_of_lt hj, Nat.add_zero]
        simp [restrictIdx]
    · intro e he
      simp only [List.mem_map, List.mem_filter] at he
      obtain ⟨e0, ⟨he0, _⟩, rfl⟩ := he
      exact ⟨rfl, by simpa using (hents e0 he0).2.2.2⟩

end LinOp.C20
