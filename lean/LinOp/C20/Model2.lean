import LinOp.C20.Model
/-!
C20 (extension session 5) — additional executable model pieces (core Lean only):

* `toeplitzGetitemZ`: `toeplitz_getitem` on arbitrary Python ints `i`, `j` (negative / beyond `n`): only `i - j` matters,
  `|i - j| ≥ n` raises `IndexError` (1-D tensor indexing);
* `bdsmmFlat`: the intermediate state of the first branch of `bdsmm` — the 2-D block-diagonal sparse tensor and the
  flattened dense operand that are handed to `torch.dsmm` — and `bdsmmUnflat`, the final `view`;
* `expectedFacts…`: what the model assumes about the source text (compared with the `ast` extraction in
  `LinOp/Generated/C20Facts.lean` by `decide +kernel` in `LinOp/Properties/C20.lean`).
-/
namespace LinOp.C20

variable {α : Type}

/-- `toeplitz_getitem(c, r, i, j)` for Python ints: `index = i - j`; `r[abs(index)]` if negative else `c[index]`;
an index `≥ n` into the 1-D tensors raises `IndexError`. -/
def toeplitzGetitemZ (n : Nat) (c r : Nat → α) (i j : Int) : Except String α :=
  let index : Int := i - j
  if index < 0 then
    (if index.natAbs < n then .ok (r index.natAbs) else .error "IndexError")
  else
    (if index.toNat < n then .ok (c index.toNat) else .error "IndexError")

/-- what `bdsmm`'s first branch hands to `torch.dsmm`, plus the shape data of the final `view` -/
structure BdsmmFlat (α : Type) where
  bshape : List Nat
  numRows : Nat
  numCols : Nat
  p : Nat
  /-- `sparse_2d` of shape `(batch_size * num_rows, batch_size * num_cols)` -/
  sparse2d : Sp α
  /-- `dense_2d = dense.expand(...).reshape(batch_size * num_cols, -1)` -/
  dense2d : Tn α

/-- first branch of `bdsmm` up to (not including) the `torch.dsmm` call -/
def bdsmmFlat (s : Sp α) (d : Tn α) : Except String (BdsmmFlat α) :=
  let sd := s.shape.length
  match matmulBroadcastShape s.shape d.shape with
  | .error e => .error e
  | .ok out =>
    let nb := out.length - 2
    let bshape := out.take nb
    let expanded := bshape ++ s.shape.drop (sd - 2)
    let unsq := List.replicate (out.length - sd) 1 ++ s.shape
    let reps := List.zipWith (fun o z => o / z) expanded unsq
    let s' := sparseRepeat true s reps
    let numRows := s'.shape.getD nb 0
    let numCols := s'.shape.getD (nb + 1) 0
    let db := d.shape.take (d.shape.length - 2)
    let p := out.getD (nb + 1) 0
    .ok { bshape := bshape, numRows := numRows, numCols := numCols, p := p
          sparse2d := ⟨[prod bshape * numRows, prod bshape * numCols], blockDiagEnts bshape numRows numCols s'.ents⟩
          dense2d := ⟨[prod bshape * numCols, p], fun o =>
            d.get (restrictIdx db (unflat bshape (o.getD 0 0 / numCols)) ++ [o.getD 0 0 % numCols, o.getD 1 0])⟩ }

/-- `torch.dsmm(sparse_2d, dense_2d).view(*batch_shape, num_rows, -1)` -/
def bdsmmUnflat [Add α] [Zero α] [Mul α] (f : BdsmmFlat α) : Tn α :=
  let nb := f.bshape.length
  ⟨f.bshape ++ [f.numRows, f.p], fun o =>
    spmm f.sparse2d.ents (fun q c => f.dense2d.get [q, c]) (flat f.bshape (o.take nb) * f.numRows + o.getD nb 0) (o.getD (nb + 1) 0)⟩

/-- `inverse_permutation(p)` for a batch of permutation vectors (`p` of shape `(*batch, n)`): the scatter loop per batch member -/
def inversePerm (p : Tn Nat) : Tn Nat :=
  let n := p.shape.getD (p.shape.length - 1) 0
  ⟨p.shape, fun idx => inversePermCore n (fun a => p.get (idx.dropLast ++ [a])) (idx.getD (idx.length - 1) 0)⟩

/-! ## what the model reads off the source text (translator obligations) -/

/-- `bdsmm`: `indices[0].add_(batch_assignment, alpha=num_rows)`, `indices[1].add_(batch_assignment, alpha=num_cols)` -/
def expectedBdsmmOffsets : List (String × String) := [("indices[0]", "num_rows"), ("indices[1]", "num_cols")]

/-- public functions of the utility modules with a Lean mirror in `Model.lean` / `Model2.lean` -/
def modelledFunctions : List (String × String) :=
  [("toeplitz", "toeplitz"), ("toeplitz", "sym_toeplitz"), ("toeplitz", "toeplitz_getitem"), ("toeplitz", "sym_toeplitz_getitem"),
   ("toeplitz", "toeplitz_matmul"), ("toeplitz", "sym_toeplitz_matmul"), ("toeplitz", "sym_toeplitz_derivative_quadratic_form"),
   ("interpolation", "left_interp"), ("interpolation", "left_t_interp"),
   ("sparse", "make_sparse_from_indices_and_values"), ("sparse", "bdsmm"), ("sparse", "sparse_eye"), ("sparse", "sparse_getitem"),
   ("sparse", "sparse_repeat"), ("sparse", "to_sparse"),
   ("permutation", "apply_permutation"), ("permutation", "inverse_permutation"),
   ("qr", "stable_qr"), ("pinverse", "stable_pinverse"),
   ("broadcasting", "_matmul_broadcast_shape"), ("_dsmm", "DSMM.forward"), ("_dsmm", "DSMM.backward")]

/-- public functions of the same modules that are deliberately NOT mirrored (`_pad_with_singletons` is a pure `view` helper
used by the operator classes only; it has no dense definition of its own) -/
def notModelledFunctions : List (String × String) := [("broadcasting", "_pad_with_singletons")]

def listedFunctions : List (String × String) := modelledFunctions ++ notModelledFunctions

end LinOp.C20
