import LinOp.C20.ProofsInterp
/-! C20 — transpose of an entry list and the gradient of DSMM (2-D case). -/
namespace LinOp.C20
variable {α : Type} [CommRing α]

theorem densify_transpose (ents : Ents α) (i j : Nat) (h : ∀ e ∈ ents, e.1.length = 2) :
    densify (transposeEnts 0 ents) [j, i] = densify ents [i, j] := by
  induction ents with
  | nil => rfl
  | cons e t ih =>
    have he := h e List.mem_cons_self
    have ht : ∀ e ∈ t, e.1.length = 2 := fun e' he' => h e' (List.mem_cons_of_mem _ he')
    have ih' := ih ht
    obtain ⟨ix, v⟩ := e
    match ix, he with
    | [a, b], _ =>
      simp only [transposeEnts, List.map_cons, densify] at ih' ⊢
      rw [ih']
      congr 1
      by_cases hab : a = i ∧ b = j
      · obtain ⟨rfl, rfl⟩ := hab
        simp
      · have h1 : ¬ ([a, b] = [i, j]) := by simpa using hab
        have h2 : ¬ ([b, a] = [j, i]) := by
          simp only [List.cons.injEq, and_true]
          intro ⟨hb, ha⟩
          exact hab ⟨ha, hb⟩
        simp [h1, h2]

/-- `DSMM.backward`, unbatched: the gradient w.r.t. the dense operand is `Sᵀ · grad`. -/
theorem dsmm_backward_2d_def (fixed : Bool) (s : Sp α) (g : Tn α) (m n p : Nat)
    (hs : s.shape = [m, n]) (hg : g.shape = [m, p])
    (hents : ∀ e ∈ s.ents, e.1.length = 2 ∧ e.1.getD 0 0 < m) :
    ∃ t, dsmmBackward fixed s g = .ok t ∧ t.shape = [n, p] ∧
      ∀ j c, t.get [j, c] = sumN m fun i => densify s.ents [i, j] * g.get [i, c] := by
  refine ⟨⟨[n, p], fun o => spmm (transposeEnts 0 s.ents) (fun j c => g.get [j, c]) (o.getD 0 0) (o.getD 1 0)⟩, ?_, rfl, ?_⟩
  · simp [dsmmBackward, bdsmm, hs, hg]
  · intro j c
    have hT : ∀ e ∈ transposeEnts 0 s.ents, e.1.length = 2 ∧ e.1.getD 1 0 < m := by
      intro e he
      simp only [transposeEnts, List.mem_map] at he
      obtain ⟨e0, he0, rfl⟩ := he
      have h2 := (hents e0 he0).2
      constructor
      · simp
      · simpa using h2
    rw [show (⟨[n, p], fun o => spmm (transposeEnts 0 s.ents) (fun j c => g.get [j, c]) (o.getD 0 0) (o.getD 1 0)⟩ : Tn α).get [j, c]
          = spmm (transposeEnts 0 s.ents) (fun j c => g.get [j, c]) j c from rfl]
    rw [spmm_def _ _ j c m hT]
    apply sumN_congr
    intro i _
    rw [densify_transpose s.ents i j (fun e he => (hents e he).1)]

end LinOp.C20
