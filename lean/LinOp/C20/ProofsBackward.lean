import LinOp.C20.ProofsGlue
/-! C20 (extension session 5) — `DSMM.backward` with broadcasting between the sparse operand and the cotangent. -/
namespace LinOp.C20

open BdsmmAux

variable {α : Type}

/-- transposing the last two dimensions keeps the stored indices inside the (transposed) box -/
theorem transpose_inBox (s : Sp α) (sb : List Nat) (m n : Nat) (hs : s.shape = sb ++ [m, n]) (h : EntsInBox s) :
    EntsInBox (⟨sb ++ [n, m], transposeEnts sb.length s.ents⟩ : Sp α) := by
  intro e he
  simp only [transposeEnts, List.mem_map] at he
  obtain ⟨e0, he0, rfl⟩ := he
  obtain ⟨hl, hb⟩ := h e0 he0
  rw [hs] at hl hb
  have hl' : e0.1.length = sb.length + 2 := by simpa using hl
  have htl : (e0.1.take sb.length).length = sb.length := by rw [List.length_take]; omega
  refine ⟨by simp [htl], ?_⟩
  intro k hk
  have hk' : k < sb.length + 2 := by simpa using hk
  show (e0.1.take sb.length ++ [e0.1.getD (sb.length + 1) 0, e0.1.getD sb.length 0]).getD k 0 < (sb ++ [n, m]).getD k 0
  by_cases h1 : k < sb.length
  · have a1 : (e0.1.take sb.length ++ [e0.1.getD (sb.length + 1) 0, e0.1.getD sb.length 0]).getD k 0 = e0.1.getD k 0 := by
      have hk2 : k < e0.1.length := by omega
      simp [List.getD_eq_getElem?_getD, List.getElem?_append_left, htl, h1, hk2]
    have a2 : (sb ++ [n, m]).getD k 0 = sb.getD k 0 := by
      simp [List.getD_eq_getElem?_getD, List.getElem?_append_left, h1]
    have a3 : (sb ++ [m, n]).getD k 0 = sb.getD k 0 := by
      simp [List.getD_eq_getElem?_getD, List.getElem?_append_left, h1]
    have h2 := hb k (by simp; omega)
    rw [a3] at h2
    rw [a1, a2]; exact h2
  · by_cases h2 : k = sb.length
    · subst h2
      have t := app2_get0 (e0.1.take sb.length) (e0.1.getD (sb.length + 1) 0) (e0.1.getD sb.length 0)
      rw [htl] at t
      rw [t, app2_get0]
      have h3 := hb (sb.length + 1) (by simp)
      rwa [app2_get1] at h3
    · have h3 : k = sb.length + 1 := by omega
      subst h3
      have t := app2_get1 (e0.1.take sb.length) (e0.1.getD (sb.length + 1) 0) (e0.1.getD sb.length 0)
      rw [htl] at t
      rw [t, app2_get1]
      have h4 := hb sb.length (by simp)
      rwa [app2_get0] at h4

variable [CommRing α]

/-- **`DSMM.backward` with broadcasting.**  For a batched sparse operand of shape `(sb…, m, n)` and a cotangent of shape `(gb…, m, p)`
whose batch shapes broadcast (the code's `_matmul_broadcast_shape` on the TRANSPOSED sparse shape succeeds with a non-empty batch):
the returned gradient `bdsmm(sparse.mT, grad_output)` has shape `(bshape…, n, p)` and
`grad[b, j, c] = Σ_i S[(b right-aligned) mod sb, i, j] · grad_output[restrict b, i, c]`, i.e. `Sᵀ · grad_output` per broadcast batch
member (autograd's sum-reduction to the dense operand's shape happens outside the library). -/
theorem dsmm_backward_broadcast_def (s : Sp α) (g : Tn α) (sb bshape gb : List Nat) (m n p : Nat)
    (hsb : sb ≠ []) (hs : s.shape = sb ++ [m, n]) (hg : g.shape = gb ++ [m, p])
    (hmb : matmulBroadcastShape (sb ++ [n, m]) g.shape = .ok (bshape ++ [n, p]))
    (hpos : ∀ o ∈ bshape, 0 < o) (hbox : EntsInBox s)
    (b : List Nat) (hb : InBox b bshape) (j c : Nat) (hj : j < n) (hm : 0 < m) :
    ∃ t, dsmmBackward true s g = .ok t ∧ t.shape = bshape ++ [n, p] ∧
      t.get (b ++ [j, c]) = sumN m fun i =>
        densify s.ents (List.zipWith (· % ·) (b.drop (bshape.length - sb.length)) sb ++ [i, j])
          * g.get (restrictIdx gb b ++ [i, c]) := by
  have hbs := matmulBroadcastShape_batch sb gb bshape n m p (by rw [← hg]; exact hmb)
  obtain ⟨hle, _⟩ := broadcastShapes_spec sb gb bshape hbs
  obtain ⟨t, ht, hsh, hget⟩ := bdsmm_broadcast_def (⟨sb ++ [n, m], transposeEnts sb.length s.ents⟩ : Sp α) g sb bshape gb n m p
    hsb rfl hg hmb hpos (transpose_inBox s sb m n hs hbox) b hb j c hj hm
  refine ⟨t, ?_, hsh, ?_⟩
  · simp only [dsmmBackward, hs, app2_length_sub, app2_take, app2_get0, app2_get1]
    exact ht
  · rw [hget]
    apply sumN_congr
    intro i hi
    congr 1
    have hblen := inBox_length hb
    have hoff : bshape.length - sb.length ≤ b.length := by omega
    have e1 : (b ++ [j, i]).drop (bshape.length - sb.length) = b.drop (bshape.length - sb.length) ++ [j, i] :=
      List.drop_append_of_le_length hoff
    have hlen : (b.drop (bshape.length - sb.length)).length = sb.length := by rw [List.length_drop]; omega
    show densify (transposeEnts sb.length s.ents)
      (List.zipWith (· % ·) ((b ++ [j, i]).drop (bshape.length - sb.length)) (sb ++ [n, m])) = _
    rw [e1, List.zipWith_append hlen]
    simp only [List.zipWith_cons_cons, List.zipWith_nil_right, Nat.mod_eq_of_lt hj, Nat.mod_eq_of_lt hi]
    exact densify_transpose_batched sb.length s.ents _ i j (by simp [hlen])
      (fun e he => by have h1 := (hbox e he).1; rw [hs] at h1; simpa using h1)

end LinOp.C20
