import LinOp.C20.ProofsSparse
/-! C20 — `sparse_getitem` applied item by item equals one multi-index selection. -/
namespace LinOp.C20
open SparseAux
variable {α : Type} [AddCommMonoid α]

/-- where result index `r` of one step comes from in the operand of that step -/
def liftStep (i : Nat) (ix : Ix) (shape : List Nat) (r : List Nat) : List Nat :=
  match ix with
  | .int z => r.insertIdx i z.toNat
  | .slice start _ _ => r.set i (r.getD i 0 + sliceBound (shape.getD i 0) start 0)

/-- shape after one step -/
def shapeStep (i : Nat) (ix : Ix) (shape : List Nat) : List Nat :=
  match ix with
  | .int _ => shape.eraseIdx i
  | .slice start stop _ =>
    shape.set i (sliceBound (shape.getD i 0) stop (shape.getD i 0) - sliceBound (shape.getD i 0) start 0)

/-- composition over the processed item list (head of the list is processed first) -/
def liftLoop : List (Nat × Ix) → List Nat → List Nat → List Nat
  | [], _, r => r
  | (i, ix) :: rest, shape, r => liftStep i ix shape (liftLoop rest (shapeStep i ix shape) r)

/-- a step is admissible for the index `r'` of its RESULT -/
def StepOk (i : Nat) (ix : Ix) (shape : List Nat) (r' : List Nat) : Prop :=
  i < shape.length ∧
  match ix with
  | .int z => 0 ≤ z ∧ r'.length + 1 = shape.length
  | .slice start stop step => step.getD 1 = 1 ∧ r'.length = shape.length ∧
      sliceBound (shape.getD i 0) start 0 + r'.getD i 0 < sliceBound (shape.getD i 0) stop (shape.getD i 0)

/-- shape after the whole loop -/
def shapeLoop : List (Nat × Ix) → List Nat → List Nat
  | [], shape => shape
  | (i, ix) :: rest, shape => shapeLoop rest (shapeStep i ix shape)

def LoopOk : List (Nat × Ix) → List Nat → List Nat → Prop
  | [], shape, r => r.length = shape.length
  | (i, ix) :: rest, shape, r =>
    LoopOk rest (shapeStep i ix shape) r ∧ StepOk i ix shape (liftLoop rest (shapeStep i ix shape) r)

theorem getitemStep_lengths (i : Nat) (ix : Ix) (s s' : Sp α) (hi : i < s.shape.length)
    (hents : ∀ e ∈ s.ents, e.1.length = s.shape.length) (h : getitemStep i ix s = .ok s') :
    ∀ e ∈ s'.ents, e.1.length = s'.shape.length := by
  cases ix with
  | int z =>
    simp only [getitemStep] at h
    split at h
    · injection h with h; subst h
      intro e he
      simp at he
      simp [he]
    · injection h with h; subst h
      intro e he
      simp only [List.mem_map, List.mem_filter] at he
      obtain ⟨e0, ⟨he0, _⟩, rfl⟩ := he
      simp only [List.length_eraseIdx, hents e0 he0]
  | slice start stop step =>
    simp only [getitemStep] at h
    split at h
    · exact absurd h (by simp)
    · split at h
      · injection h with h; subst h
        intro e he
        simp at he
        simp [he]
      · injection h with h; subst h
        intro e he
        simp only [List.mem_map, List.mem_filter] at he
        obtain ⟨e0, ⟨he0, _⟩, rfl⟩ := he
        simp [hents e0 he0]

theorem getitemStep_step_irrel (i : Nat) (start stop step : Option Int) (s : Sp α) (h : step.getD 1 = 1) :
    getitemStep i (.slice start stop step) s = getitemStep i (.slice start stop none) s := by
  have h1 : ¬ (step.getD 1 ≠ 1) := by simp [h]
  have h2 : ¬ ((none : Option Int).getD 1 ≠ 1) := by simp
  simp only [getitemStep, if_neg h1, if_neg h2]

/-- one step, both kinds -/
theorem getitem_step_def (i : Nat) (ix : Ix) (s : Sp α) (r' : List Nat)
    (hents : ∀ e ∈ s.ents, e.1.length = s.shape.length) (hok : StepOk i ix s.shape r') :
    ∃ s', getitemStep i ix s = .ok s' ∧ s'.shape = shapeStep i ix s.shape ∧
      (∀ e ∈ s'.ents, e.1.length = s'.shape.length) ∧
      densify s'.ents r' = densify s.ents (liftStep i ix s.shape r') := by
  obtain ⟨hi, hrest⟩ := hok
  cases ix with
  | int z =>
    obtain ⟨hz, hlen⟩ := hrest
    obtain ⟨s', h1, h2, h3⟩ := sparse_getitem_int_def i z.toNat s r' hi hlen hents
    rw [Int.toNat_of_nonneg hz] at h1
    exact ⟨s', h1, h2, getitemStep_lengths i _ s s' hi hents h1, h3⟩
  | slice start stop step =>
    obtain ⟨hstep, hlen, hr⟩ := hrest
    obtain ⟨s', h1, h2, h3⟩ := sparse_getitem_slice_def i start stop s r' hi hlen hents hr
    rw [← getitemStep_step_irrel i start stop step s hstep] at h1
    exact ⟨s', h1, h2, getitemStep_lengths i _ s s' hi hents h1, h3⟩

/-- MAIN: the loop applied item by item = one multi-index selection -/
theorem getitem_loop_def (items : List (Nat × Ix)) (s : Sp α) (r : List Nat)
    (hents : ∀ e ∈ s.ents, e.1.length = s.shape.length) (hok : LoopOk items s.shape r) :
    ∃ s', getitemLoop items s = .ok s' ∧ s'.shape = shapeLoop items s.shape ∧
      (∀ e ∈ s'.ents, e.1.length = s'.shape.length) ∧
      densify s'.ents r = densify s.ents (liftLoop items s.shape r) := by
  induction items generalizing s with
  | nil => exact ⟨s, rfl, rfl, hents, rfl⟩
  | cons it rest ih =>
    obtain ⟨i, ix⟩ := it
    obtain ⟨hrest, hstep⟩ := hok
    obtain ⟨s1, h1, hsh, hl1, hd1⟩ := getitem_step_def i ix s _ hents hstep
    rw [← hsh] at hrest
    obtain ⟨s', h2, hs2, hl2, hd2⟩ := ih s1 hl1 hrest
    refine ⟨s', ?_, ?_, hl2, ?_⟩
    · simp only [getitemLoop, h1, h2]
    · rw [hs2, hsh]; rfl
    · rw [hd2, hsh, hd1]
      rfl

/-! ### the public function on 2-D tensors -/

theorem sumVals_eq_densify_nil (ents : Ents α) (h : ∀ e ∈ ents, e.1.length = 0) :
    sumVals ents = densify ents [] := by
  induction ents with
  | nil => rfl
  | cons e t ih =>
    have he : e.1 = [] := List.eq_nil_of_length_eq_zero (h e List.mem_cons_self)
    obtain ⟨ei, ev⟩ := e
    simp only at he
    subst he
    simp only [sumVals, densify, if_true]
    rw [ih (fun e' h' => h e' (List.mem_cons_of_mem _ h'))]

theorem sparseGetitem_two (s : Sp α) (m n : Nat) (hs : s.shape = [m, n]) (ix0 ix1 : Ix)
    (hn0 : normIx true m ix0 = ix0) (hn1 : normIx true n ix1 = ix1) :
    sparseGetitem true s [ix0, ix1] =
      match getitemLoop [(1, ix1), (0, ix0)] s with
      | .error e => .error e
      | .ok r => if r.shape.isEmpty then .ok (.inl (sumVals r.ents)) else .ok (.inr r) := by
  simp [sparseGetitem, hs, hn0, hn1, List.range, List.range.loop]
  cases getitemLoop [(1, ix1), (0, ix0)] s with
  | error e => rfl
  | ok r => by_cases h : r.shape = [] <;> simp [h]

theorem normIx_nat (n z : Nat) : normIx true n (.int (z : Int)) = .int (z : Int) := by
  have h : ¬ ((z : Int) < 0) := by omega
  simp [normIx, h]

theorem sparse_getitem_slice_slice_def (s : Sp α) (m n : Nat) (hs : s.shape = [m, n])
    (hents : ∀ e ∈ s.ents, e.1.length = 2) (a0 b0 a1 b1 : Option Int) (j0 j1 : Nat)
    (h0 : sliceBound m a0 0 + j0 < sliceBound m b0 m) (h1 : sliceBound n a1 0 + j1 < sliceBound n b1 n) :
    ∃ t, sparseGetitem true s [.slice a0 b0 none, .slice a1 b1 none] = .ok (.inr t) ∧
      t.shape = [sliceBound m b0 m - sliceBound m a0 0, sliceBound n b1 n - sliceBound n a1 0] ∧
      densify t.ents [j0, j1] = densify s.ents [sliceBound m a0 0 + j0, sliceBound n a1 0 + j1] := by
  have hok : LoopOk [(1, Ix.slice a1 b1 none), (0, Ix.slice a0 b0 none)] s.shape [j0, j1] := by
    simp [LoopOk, StepOk, liftLoop, liftStep, shapeStep, hs]
    omega
  obtain ⟨t, ht, hsh, _, hd⟩ := getitem_loop_def _ s [j0, j1] (by simpa [hs] using hents) hok
  refine ⟨t, ?_, ?_, ?_⟩
  · rw [sparseGetitem_two s m n hs _ _ rfl rfl, ht]
    have : t.shape ≠ [] := by rw [hsh]; simp [shapeLoop, shapeStep, hs]
    simp [this]
  · rw [hsh]; simp [shapeLoop, shapeStep, hs]
  · rw [hd]; simp [liftLoop, liftStep, shapeStep, hs, Nat.add_comm]

theorem sparse_getitem_int_slice_def (s : Sp α) (m n : Nat) (hs : s.shape = [m, n])
    (hents : ∀ e ∈ s.ents, e.1.length = 2) (z : Nat) (a1 b1 : Option Int) (j1 : Nat)
    (h1 : sliceBound n a1 0 + j1 < sliceBound n b1 n) :
    ∃ t, sparseGetitem true s [.int z, .slice a1 b1 none] = .ok (.inr t) ∧
      t.shape = [sliceBound n b1 n - sliceBound n a1 0] ∧
      densify t.ents [j1] = densify s.ents [z, sliceBound n a1 0 + j1] := by
  have hok : LoopOk [(1, Ix.slice a1 b1 none), (0, Ix.int z)] s.shape [j1] := by
    simp [LoopOk, StepOk, liftLoop, liftStep, shapeStep, hs]
    omega
  obtain ⟨t, ht, hsh, _, hd⟩ := getitem_loop_def _ s [j1] (by simpa [hs] using hents) hok
  refine ⟨t, ?_, ?_, ?_⟩
  · rw [sparseGetitem_two s m n hs _ _ (normIx_nat m z) rfl, ht]
    have : t.shape ≠ [] := by rw [hsh]; simp [shapeLoop, shapeStep, hs]
    simp [this]
  · rw [hsh]; simp [shapeLoop, shapeStep, hs]
  · rw [hd]; simp [liftLoop, liftStep, shapeStep, hs, Nat.add_comm]

theorem sparse_getitem_slice_int_def (s : Sp α) (m n : Nat) (hs : s.shape = [m, n])
    (hents : ∀ e ∈ s.ents, e.1.length = 2) (a0 b0 : Option Int) (z : Nat) (j0 : Nat)
    (h0 : sliceBound m a0 0 + j0 < sliceBound m b0 m) :
    ∃ t, sparseGetitem true s [.slice a0 b0 none, .int z] = .ok (.inr t) ∧
      t.shape = [sliceBound m b0 m - sliceBound m a0 0] ∧
      densify t.ents [j0] = densify s.ents [sliceBound m a0 0 + j0, z] := by
  have hok : LoopOk [(1, Ix.int z), (0, Ix.slice a0 b0 none)] s.shape [j0] := by
    simp [LoopOk, StepOk, liftLoop, liftStep, shapeStep, hs]
    omega
  obtain ⟨t, ht, hsh, _, hd⟩ := getitem_loop_def _ s [j0] (by simpa [hs] using hents) hok
  refine ⟨t, ?_, ?_, ?_⟩
  · rw [sparseGetitem_two s m n hs _ _ rfl (normIx_nat n z), ht]
    have : t.shape ≠ [] := by rw [hsh]; simp [shapeLoop, shapeStep, hs]
    simp [this]
  · rw [hsh]; simp [shapeLoop, shapeStep, hs]
  · rw [hd]; simp [liftLoop, liftStep, shapeStep, hs, Nat.add_comm]

theorem sparse_getitem_int_int_def (s : Sp α) (m n : Nat) (hs : s.shape = [m, n])
    (hents : ∀ e ∈ s.ents, e.1.length = 2) (z0 z1 : Nat) :
    sparseGetitem true s [.int z0, .int z1] = .ok (.inl (densify s.ents [z0, z1])) := by
  have hok : LoopOk [(1, Ix.int z1), (0, Ix.int z0)] s.shape [] := by
    simp [LoopOk, StepOk, liftLoop, liftStep, shapeStep, hs]
  obtain ⟨t, ht, hsh, hl, hd⟩ := getitem_loop_def _ s [] (by simpa [hs] using hents) hok
  rw [sparseGetitem_two s m n hs _ _ (normIx_nat m z0) (normIx_nat n z1), ht]
  have hnil : t.shape = [] := by rw [hsh]; simp [shapeLoop, shapeStep, hs]
  have hl0 : ∀ e ∈ t.ents, e.1.length = 0 := by intro e he; rw [hl e he, hnil]; rfl
  simp only [hnil, List.isEmpty_nil, if_true]
  rw [sumVals_eq_densify_nil t.ents hl0, hd]
  simp [liftLoop, liftStep, shapeStep, hs]

end LinOp.C20
