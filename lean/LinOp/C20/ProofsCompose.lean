import LinOp.C20.ProofsBcast
import LinOp.C20.ProofsRepeatFold
/-! C20 (extension session 5) — glue between `sparse_repeat`'s loop and `bdsmm`'s first branch: the repeated tensor keeps its
entries inside the (enlarged) box, so the well-formedness hypothesis of `bdsmm_bcast_def` follows from well-formedness of the
ORIGINAL sparse operand. -/
namespace LinOp.C20

open BdsmmAux RepeatAux

variable {α : Type}

theorem repeat_loop_shape_length (reps : List Nat) : ∀ (i : Nat) (s : Sp α),
    (repeatLoop true i reps s).shape.length = s.shape.length := by
  induction reps with
  | nil => intro i s; rfl
  | cons rep rest ih =>
    intro i s
    simp only [repeatLoop]
    rw [ih (i + 1) (repeatDim true i rep s), repeatDim_shape_length]

/-- the whole loop of `sparse_repeat` keeps every stored index inside the box of the result's shape -/
theorem repeat_loop_inBox (reps : List Nat) : ∀ (i : Nat) (s : Sp α),
    i + reps.length ≤ s.shape.length → EntsInBox s → EntsInBox (repeatLoop true i reps s) := by
  induction reps with
  | nil => intro i s _ h; exact h
  | cons rep rest ih =>
    intro i s hi h
    simp only [List.length_cons] at hi
    simp only [repeatLoop]
    exact ih (i + 1) (repeatDim true i rep s) (by rw [repeatDim_shape_length]; omega)
      (repeatDim_inBox i rep s (by omega) h)

/-- prepending new leading dimensions of size 1 (index 0) keeps the entries inside the box -/
theorem pad_inBox (s : Sp α) (extra : Nat) (h : EntsInBox s) :
    EntsInBox (⟨List.replicate extra 1 ++ s.shape, s.ents.map fun e => (List.replicate extra 0 ++ e.1, e.2)⟩ : Sp α) := by
  intro e he
  simp only [List.mem_map] at he
  obtain ⟨e0, he0, rfl⟩ := he
  obtain ⟨hl, hb⟩ := h e0 he0
  refine ⟨by simp [hl], ?_⟩
  intro k hk
  simp only [List.length_append, List.length_replicate] at hk
  by_cases hke : k < extra
  · simp [List.getD_eq_getElem?_getD, List.getElem?_append_left, hke]
  · have h1 := hb (k - extra) (by omega)
    have e1 : (List.replicate extra 0 ++ e0.1).getD k 0 = e0.1.getD (k - extra) 0 := by
      simp [List.getD_eq_getElem?_getD, List.getElem?_append_right, Nat.not_lt.mp hke]
    have e2 : (List.replicate extra 1 ++ s.shape).getD k 0 = s.shape.getD (k - extra) 0 := by
      simp [List.getD_eq_getElem?_getD, List.getElem?_append_right, Nat.not_lt.mp hke]
    show (List.replicate extra 0 ++ e0.1).getD k 0 < _
    rw [e1, e2]; exact h1

/-- `sparse_repeat` (any repeat sizes, with or without new leading dimensions) keeps every stored index inside the box -/
theorem sparse_repeat_inBox (s : Sp α) (reps : List Nat) (hr : s.shape.length ≤ reps.length) (h : EntsInBox s) :
    EntsInBox (sparseRepeat true s reps) := by
  unfold sparseRepeat
  by_cases hgt : reps.length > s.shape.length
  · simp only [if_pos hgt]
    apply repeat_loop_inBox
    · simp; omega
    · exact pad_inBox s _ h
  · simp only [if_neg hgt]
    exact repeat_loop_inBox reps 0 s (by omega) h

theorem inBox_of_getD : ∀ (l sh : List Nat), l.length = sh.length →
    (∀ k, k < sh.length → l.getD k 0 < sh.getD k 0) → InBox l sh := by
  intro l
  induction l with
  | nil =>
    intro sh hl _
    cases sh with
    | nil => exact List.Forall₂.nil
    | cons _ _ => simp at hl
  | cons x t ih =>
    intro sh hl h
    cases sh with
    | nil => simp at hl
    | cons y u =>
      refine List.Forall₂.cons ?_ (ih u (by simpa using hl) ?_)
      · have := h 0 (by simp); simpa using this
      · intro k hk
        have := h (k + 1) (by simp; omega)
        simpa using this

/-- a tensor of shape `bshape ++ [m, n]` with all entries inside its box satisfies `bdsmm`'s well-formedness hypothesis -/
theorem batchedEntsOk_of_inBox (s : Sp α) (bshape : List Nat) (m n : Nat) (hs : s.shape = bshape ++ [m, n])
    (h : EntsInBox s) : BatchedEntsOk s.ents bshape m n := by
  intro e he
  obtain ⟨hl, hb⟩ := h e he
  rw [hs] at hl hb
  have hl' : e.1.length = bshape.length + 2 := by simpa using hl
  refine ⟨hl', ?_, ?_, ?_⟩
  · apply inBox_of_getD
    · rw [List.length_take]; omega
    · intro k hk
      have h1 := hb k (by simp; omega)
      have e1 : (e.1.take bshape.length).getD k 0 = e.1.getD k 0 := by
        simp [List.getD_eq_getElem?_getD, List.getElem?_take, hk]
      have e2 : (bshape ++ [m, n]).getD k 0 = bshape.getD k 0 := by
        simp [List.getD_eq_getElem?_getD, List.getElem?_append_left, hk]
      rw [e1, ← e2]; exact h1
  · have h1 := hb bshape.length (by simp)
    rwa [app2_get0] at h1
  · have h1 := hb (bshape.length + 1) (by simp)
    rwa [app2_get1] at h1

variable [CommRing α]

/-- `bdsmm_bcast_def` with the well-formedness hypothesis on the ORIGINAL sparse operand only (entries inside the box of its own
shape): ANY sparse batch shape × ANY dense batch shape; the only remaining shape hypothesis is that `sparse_repeat` produced the
broadcast batch shape (`hs'`, a computation on shapes). -/
theorem bdsmm_bcast_wf_def (s : Sp α) (d : Tn α) (bshape db : List Nat) (m n p : Nat)
    (hsl : s.shape.length > 2) (hd : d.shape = db ++ [n, p])
    (hmb : matmulBroadcastShape s.shape d.shape = .ok (bshape ++ [m, p]))
    (hrank : s.shape.length ≤ bshape.length + 2)
    (hs' : (sparseRepeat true s (bdsmmReps s.shape (bshape ++ [m, p]))).shape = bshape ++ [m, n])
    (hbox : EntsInBox s)
    (b : List Nat) (hb : InBox b bshape) (i c : Nat) (hi : i < m) (hn : 0 < n) :
    ∃ t, bdsmm true s d = .ok t ∧ t.shape = bshape ++ [m, p] ∧
      t.get (b ++ [i, c]) = sumN n fun j =>
        densify (sparseRepeat true s (bdsmmReps s.shape (bshape ++ [m, p]))).ents (b ++ [i, j])
          * d.get (restrictIdx db b ++ [j, c]) := by
  have hlen : s.shape.length ≤ (bdsmmReps s.shape (bshape ++ [m, p])).length := by
    simp only [bdsmmReps, List.length_zipWith, List.length_append, List.length_take, List.length_drop,
      List.length_replicate, List.length_cons, List.length_nil]
    omega
  exact bdsmm_bcast_def s d bshape db m n p hsl hd hmb hs'
    (batchedEntsOk_of_inBox _ bshape m n hs' (sparse_repeat_inBox s _ hlen hbox)) b hb i c hi hn

end LinOp.C20
