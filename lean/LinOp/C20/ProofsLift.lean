import LinOp.C20.ProofsToeplitz
import LinOp.C20.ProofsInterp
import LinOp.C20.ProofsBdsmm
/-! C20 (extension session 5) — batch / broadcast lifting of the per-matrix theorems to the WHOLE functions, for every batch shape:
`sym_toeplitz_derivative_quadratic_form` with any number of leading batch dimensions, `left_interp` and `left_t_interp` with
independently broadcast batch shapes of the interpolation tensors and the right-hand side (matrix and 1-D right-hand sides). -/
namespace LinOp.C20

open BdsmmAux

variable {α : Type} [CommRing α]

theorem take_app1 (l : List Nat) (x : Nat) : (l ++ [x]).take l.length = l := by simp
theorem getD_app1 (l : List Nat) (x : Nat) : (l ++ [x]).getD l.length 0 = x := by simp

/-- `sym_toeplitz_derivative_quadratic_form(left, right)` for inputs of shape `(*batch, m, s)`, ANY batch shape (any number of
leading batch dimensions): shape `(*batch, m)` and entry `(b, i)` is `Σ_j u_jᵀ (∂T/∂c_i) v_j` of batch member `b`. -/
theorem dqf_batched_def (left right : Tn α) (bs : List Nat) (m s : Nat) (hm : 1 ≤ m)
    (hl : left.shape = bs ++ [m, s]) (b : List Nat) (hb : b.length = bs.length) (i : Nat) (hi : i < m) :
    (dqf left right).shape = bs ++ [m] ∧
    (dqf left right).get (b ++ [i]) =
      dqfSpec m s (fun j a => left.get (b ++ [a, j])) (fun j a => right.get (b ++ [a, j])) i := by
  have h1 : ¬ ((bs ++ [m, s]).length = 1) := by simp
  have e1 : (bs ++ [m, s]).length - 2 = bs.length := app2_length_sub _ _ _
  constructor
  · simp only [dqf, hl, if_neg h1, e1, app2_take, app2_get0]
  · simp only [dqf, hl, if_neg h1, e1, app2_get0, app2_get1]
    rw [← hb, take_app1, getD_app1]
    exact toeplitz_dqf m s hm _ _ i hi

/-- the 1-D form: `left`, `right` vectors of length `m` (one pair of vectors) -/
theorem dqf_vector_def (left right : Tn α) (m : Nat) (hm : 1 ≤ m) (hl : left.shape = [m]) (i : Nat) (hi : i < m) :
    (dqf left right).shape = [m] ∧
    (dqf left right).get [i] = dqfSpec m 1 (fun _ a => left.get [a]) (fun _ a => right.get [a]) i := by
  constructor
  · simp [dqf, hl]
  · simp only [dqf, hl, List.length_cons, List.length_nil, if_true, List.getD_cons_zero]
    exact toeplitz_dqf m 1 hm _ _ i hi

/-- `left_interp(interp_indices, interp_values, rhs)` with a matrix right-hand side and INDEPENDENTLY broadcast batch shapes
(`ib`, `vb` of the interpolation tensors, `rb` of the right-hand side; any ranks, size-1 dimensions): the result at batch
index `b` of the broadcast batch shape is `W[restrict b] · rhs[restrict b]`, duplicates in a row of indices add. -/
theorem left_interp_batched_def (idx : Tn Nat) (val rhs : Tn α) (ib vb rb bshape : List Nat) (R K nd cols : Nat)
    (hi : idx.shape = ib ++ [R, K]) (hv : val.shape = vb ++ [R, K]) (hr : rhs.shape = rb ++ [nd, cols])
    (hmb : matmulBroadcastShape (ib ++ [R, nd]) (rb ++ [nd, cols]) = .ok (bshape ++ [R, cols]))
    (b : List Nat) (hb : b.length = bshape.length) (r c : Nat)
    (hidx : ∀ k, k < K → idx.get (restrictIdx ib b ++ [r, k]) < nd) :
    ∃ t, leftInterp idx val rhs = .ok t ∧ t.shape = bshape ++ [R, cols] ∧
      t.get (b ++ [r, c]) = sumN nd fun a =>
        interpW K (fun r k => idx.get (restrictIdx ib b ++ [r, k])) (fun r k => val.get (restrictIdx vb b ++ [r, k])) r a
          * rhs.get (restrictIdx rb b ++ [a, c]) := by
  have h1 : ¬ ((rb ++ [nd, cols]).length = 1) := by simp
  have e1 : (ib ++ [R, K]).length - 2 = ib.length := app2_length_sub _ _ _
  have e2 : (vb ++ [R, K]).length - 2 = vb.length := app2_length_sub _ _ _
  have e3 : (rb ++ [nd, cols]).length - 2 = rb.length := app2_length_sub _ _ _
  have e4 : (ib ++ [R, K]).dropLast ++ [nd] = ib ++ [R, nd] := by
    rw [show ib ++ [R, K] = (ib ++ [R]) ++ [K] by simp, List.dropLast_concat]; simp
  have e5 : (bshape ++ [R, cols]).length - 2 = bshape.length := app2_length_sub _ _ _
  refine ⟨⟨bshape ++ [R, cols], fun o =>
      leftInterpCore K (fun r k => idx.get (restrictIdx ib (o.take bshape.length) ++ [r, k]))
        (fun r k => val.get (restrictIdx vb (o.take bshape.length) ++ [r, k]))
        (fun a => rhs.get (restrictIdx rb (o.take bshape.length) ++ [a, o.getD (bshape.length + 1) 0])) (o.getD bshape.length 0)⟩,
    ?_, rfl, ?_⟩
  · simp only [leftInterp, hi, hv, hr, if_neg h1, e1, e2, e3, e4, app2_get0, app2_get1, app2_take, hmb, e5]
  · dsimp only
    rw [← hb, app2_take, app2_get0, app2_get1]
    exact left_interp_def nd K _ _ _ r hidx

/-- `left_t_interp(interp_indices, interp_values, rhs, output_dim)` with a matrix right-hand side and independently broadcast
batch shapes: the result at batch index `b` is `W[restrict b]ᵀ · rhs[restrict b]` (`W` of size `D × output_dim`). -/
theorem left_t_interp_batched_def (idx : Tn Nat) (val rhs : Tn α) (ib vb rb bshape : List Nat) (D K outDim cols : Nat)
    (hi : idx.shape = ib ++ [D, K]) (hv : val.shape = vb ++ [D, K]) (hr : rhs.shape = rb ++ [D, cols])
    (hmb : matmulBroadcastShape (ib ++ [outDim, D]) (rb ++ [D, cols]) = .ok (bshape ++ [outDim, cols]))
    (b : List Nat) (hb : b.length = bshape.length) (o c : Nat) :
    ∃ t, leftTInterp idx val rhs outDim = .ok t ∧ t.shape = bshape ++ [outDim, cols] ∧
      t.get (b ++ [o, c]) = sumN D fun d =>
        interpW K (fun d k => idx.get (restrictIdx ib b ++ [d, k])) (fun d k => val.get (restrictIdx vb b ++ [d, k])) d o
          * rhs.get (restrictIdx rb b ++ [d, c]) := by
  have h1 : ¬ ((rb ++ [D, cols]).length = 1) := by simp
  have e1 : (ib ++ [D, K]).length - 2 = ib.length := app2_length_sub _ _ _
  have e2 : (vb ++ [D, K]).length - 2 = vb.length := app2_length_sub _ _ _
  have e3 : (rb ++ [D, cols]).length - 2 = rb.length := app2_length_sub _ _ _
  have e4 : (vb ++ [D, K]).length - 1 = vb.length + 1 := by simp
  have e5 : (bshape ++ [outDim, cols]).length - 2 = bshape.length := app2_length_sub _ _ _
  refine ⟨⟨bshape ++ [outDim, cols], fun q =>
      leftTInterpCore D K (fun d k => idx.get (restrictIdx ib (q.take bshape.length) ++ [d, k]))
        (fun d k => val.get (restrictIdx vb (q.take bshape.length) ++ [d, k]))
        (fun d => rhs.get (restrictIdx rb (q.take bshape.length) ++ [d, q.getD (bshape.length + 1) 0])) (q.getD bshape.length 0)⟩,
    ?_, rfl, ?_⟩
  · simp only [leftTInterp, hi, hv, hr, if_neg h1, e1, e2, e3, e4, app2_get0, app2_get1, app2_take, hmb, e5]
  · dsimp only
    rw [← hb, app2_take, app2_get0, app2_get1]
    exact left_t_interp_def D K _ _ _ o

end LinOp.C20
