import LinOp.C20.ProofsLift
import LinOp.C20.ProofsPermQr
/-! C20 (extension session 5) — whole-function theorems with batch broadcasting for `toeplitz_matmul` / `sym_toeplitz_matmul`
(matrix right-hand side) and `apply_permutation` (batched left / right permutations). -/
namespace LinOp.C20

open BdsmmAux

variable {α : Type}

theorem dropLast_app1 (l : List Nat) (x : Nat) : (l ++ [x]).dropLast = l := List.dropLast_concat
theorem length_app1_sub (l : List Nat) (x : Nat) : (l ++ [x]).length - 1 = l.length := by simp

/-- `toeplitz_matmul(c, r, M)` — the WHOLE function with batch broadcasting (column / row of batch shape `cb`, right-hand side of
batch shape `xb`, any ranks and size-1 dimensions; `sym_toeplitz_matmul` is the case `r = c`): shape check, `_matmul_broadcast_shape`,
`expand`, the first-element check over every member of the broadcast batch, circulant embedding, FFT contract, slice.  At batch
index `b` of the broadcast batch shape the result is `T[restrict b] · M[restrict b]`, for every `n ≥ 1`. -/
theorem toeplitz_matmul_batched_def [CommRing α] [DecidableEq α] (c r x : Tn α) (cb xb bshape : List Nat) (n p : Nat) (hn : 1 ≤ n)
    (hc : c.shape = cb ++ [n]) (hr : r.shape = cb ++ [n]) (hx : x.shape = xb ++ [n, p])
    (hmb : matmulBroadcastShape (cb ++ [n, n]) (xb ++ [n, p]) = .ok (bshape ++ [n, p]))
    (h0 : ∀ b' ∈ allIdx bshape, c.get (restrictIdx cb b' ++ [0]) = r.get (restrictIdx cb b' ++ [0])) :
    ∃ t, toeplitzMatmul true c r x = .ok t ∧ t.shape = bshape ++ [n, p] ∧
      ∀ (b : List Nat), b.length = bshape.length → ∀ i k, i < n →
        t.get (b ++ [i, k]) = sumN n fun j =>
          toeplitzEntry (fun a => c.get (restrictIdx cb b ++ [a])) (fun a => r.get (restrictIdx cb b ++ [a])) i j
            * x.get (restrictIdx xb b ++ [j, k]) := by
  have h1 : ¬ ((xb ++ [n, p]).length = 1) := by simp
  have e0 : cb ++ [n] ++ [n] = cb ++ [n, n] := by simp
  have e1 : (xb ++ [n, p]).length - 2 = xb.length := app2_length_sub _ _ _
  have e2 : (bshape ++ [n, p]).length - 2 = bshape.length := app2_length_sub _ _ _
  have hany : ((allIdx bshape).any fun b => decide (c.get (restrictIdx cb b ++ [0]) ≠ r.get (restrictIdx cb b ++ [0]))) = false := by
    rw [List.any_eq_false]
    intro b hb
    simp [h0 b hb]
  refine ⟨⟨bshape ++ [n, p], fun idx =>
      toeplitzMatmulCore n (fun a => c.get (restrictIdx cb (idx.take bshape.length) ++ [a]))
        (fun a => r.get (restrictIdx cb (idx.take bshape.length) ++ [a]))
        (fun a => x.get (restrictIdx xb (idx.take bshape.length) ++ [a, idx.getD (bshape.length + 1) 0]))
        (idx.getD bshape.length 0)⟩, ?_, rfl, ?_⟩
  · simp only [toeplitzMatmul, hc, hr, hx, ne_eq, not_true_eq_false, if_false, length_app1_sub, getD_app1, e0, decide_eq_false h1,
      Bool.false_and, Bool.false_eq_true, if_neg h1, hmb, e1, e2, app2_take, dropLast_app1, hany]
  · intro b hb i k hi
    dsimp only
    rw [← hb, app2_take, app2_get0, app2_get1]
    exact toeplitz_matmul_embedding n hn _ _ _ i hi

/-- `apply_permutation(K, left, right)` — the WHOLE function with batched (partial) permutations whose batch shapes broadcast
against the matrix' batch shape (any ranks, size-1 dimensions, more batch dimensions than `K`): entry `(b, i, j)` of the result is
`K[restrict b][left[restrict b][i], right[restrict b][j]]`, i.e. `Π_l K Π_rᵀ` per batch member (`apply_perm_def`). -/
theorem apply_perm_batched_def (K : Tn α) (l r : Tn Nat) (kb lb rb b1 bshape : List Nat) (m n nl nr : Nat)
    (hK : K.shape = kb ++ [m, n]) (hl : l.shape = lb ++ [nl]) (hr : r.shape = rb ++ [nr])
    (h1 : broadcastShapes kb lb = some b1) (h2 : broadcastShapes b1 rb = some bshape)
    (b : List Nat) (hb : b.length = bshape.length) (i j : Nat) :
    ∃ t, applyPerm K (some l) (some r) = .ok t ∧ t.shape = bshape ++ [nl, nr] ∧
      t.get (b ++ [i, j]) =
        K.get (restrictIdx kb b ++ [l.get (restrictIdx lb b ++ [i]), r.get (restrictIdx rb b ++ [j])]) := by
  have e1 : (kb ++ [m, n]).length - 2 = kb.length := app2_length_sub _ _ _
  refine ⟨⟨bshape ++ [nl, nr], fun o =>
      K.get (restrictIdx kb (o.take bshape.length) ++ [l.get (restrictIdx lb (o.take bshape.length) ++ [o.getD bshape.length 0]),
        r.get (restrictIdx rb (o.take bshape.length) ++ [o.getD (bshape.length + 1) 0])])⟩, ?_, rfl, ?_⟩
  · unfold applyPerm
    simp only [hK, hl, hr, e1, app2_take, dropLast_app1, h1, h2, length_app1_sub, getD_app1]
  · dsimp only
    rw [← hb, app2_take, app2_get0, app2_get1]

end LinOp.C20
