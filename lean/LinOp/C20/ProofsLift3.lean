import LinOp.C20.ProofsLift2
/-! C20 (extension session 5) — `toeplitz_matmul` with a 1-D right-hand side and a BATCHED column / row (any batch shape). -/
namespace LinOp.C20

open BdsmmAux

variable {α : Type}

/-- `toeplitz_matmul(c, r, v)` / `sym_toeplitz_matmul(c, v)` with a 1-D right-hand side `v` (length `n`) and column / row of ANY batch
shape `cb`: the vector is unsqueezed, broadcast against every batch member, and the last dimension squeezed again — the result has
shape `(cb…, n)` and `out[b] = T[b] · v`, for every `n ≥ 1`. -/
theorem toeplitz_matmul_vector_batched_def [CommRing α] [DecidableEq α] (c r x : Tn α) (cb : List Nat) (n : Nat) (hn : 1 ≤ n)
    (hc : c.shape = cb ++ [n]) (hr : r.shape = cb ++ [n]) (hx : x.shape = [n])
    (h0 : ∀ b' ∈ allIdx cb, c.get (restrictIdx cb b' ++ [0]) = r.get (restrictIdx cb b' ++ [0])) :
    ∃ t, toeplitzMatmul true c r x = .ok t ∧ t.shape = cb ++ [n] ∧
      ∀ (b : List Nat), b.length = cb.length → ∀ i, i < n →
        t.get (b ++ [i]) = sumN n fun j =>
          toeplitzEntry (fun a => c.get (restrictIdx cb b ++ [a])) (fun a => r.get (restrictIdx cb b ++ [a])) i j * x.get [j] := by
  have hv : ([n] : List Nat).length = 1 := rfl
  have e0 : cb ++ [n] ++ [n] = cb ++ [n, n] := by simp
  have hmb := matmulBroadcastShape_dense2d cb n n 1
  have e3 : (cb ++ [n, 1]).dropLast = cb ++ [n] := by
    rw [show cb ++ [n, 1] = (cb ++ [n]) ++ [1] by simp, List.dropLast_concat]
  refine ⟨⟨cb ++ [n], fun idx =>
      toeplitzMatmulCore n (fun a => c.get (restrictIdx cb ((idx ++ [0]).take cb.length) ++ [a]))
        (fun a => r.get (restrictIdx cb ((idx ++ [0]).take cb.length) ++ [a]))
        (fun a => x.get ((restrictIdx [] ((idx ++ [0]).take cb.length) ++ [a, (idx ++ [0]).getD (cb.length + 1) 0]).dropLast))
        ((idx ++ [0]).getD cb.length 0)⟩, ?_, rfl, ?_⟩
  · simp [toeplitzMatmul, hc, hr, hx, e0, hmb, e3]
    exact h0
  · intro b hb i hi
    dsimp only
    have e4 : b ++ [i] ++ [0] = b ++ [i, 0] := by simp
    rw [e4, ← hb, app2_take, app2_get0]
    have e5 : ∀ a k, (restrictIdx [] b ++ [a, k]).dropLast = [a] := by
      intro a k; simp [restrictIdx]
    simp only [e5]
    exact toeplitz_matmul_embedding n hn _ _ _ i hi

/-- `left_interp` with a 1-D right-hand side (the `index_select` branch), interpolation tensors of ANY batch shape `vb`: the result has
shape `(vb…, R)` and entry `o = (b…, r)` is `Σ_a W[b][r, a] · rhs[a]` (duplicates within the row of indices add). -/
theorem left_interp_vector_def [CommRing α] (idx : Tn Nat) (val rhs : Tn α) (vb : List Nat) (R K n : Nat)
    (hi : idx.shape = vb ++ [R, K]) (hv : val.shape = vb ++ [R, K]) (hr : rhs.shape = [n]) (o : List Nat)
    (hidx : ∀ k, k < K → idx.get (o ++ [k]) < n) :
    ∃ t, leftInterp idx val rhs = .ok t ∧ t.shape = vb ++ [R] ∧
      t.get o = sumN n fun a =>
        interpW K (fun _ k => idx.get (o ++ [k])) (fun _ k => val.get (o ++ [k])) 0 a * rhs.get [a] := by
  have e1 : (vb ++ [R, K]).length - 2 = vb.length := app2_length_sub _ _ _
  have e3 : (vb ++ [R, K]).dropLast = vb ++ [R] := by
    rw [show vb ++ [R, K] = (vb ++ [R]) ++ [K] by simp, List.dropLast_concat]
  refine ⟨⟨vb ++ [R], fun o =>
      leftInterpCore K (fun _ k => idx.get (o ++ [k])) (fun _ k => val.get (o ++ [k])) (fun a => rhs.get [a]) 0⟩, ?_, rfl, ?_⟩
  · simp only [leftInterp, hi, hv, hr, e1, app2_get1, e3, List.length_cons, List.length_nil, if_true]
  · dsimp only
    exact left_interp_def n K _ _ _ 0 hidx

/-- `left_t_interp` with a 1-D right-hand side (length `D`) and interpolation tensors of batch shapes `ib` / `vb`: the vector is
unsqueezed, broadcast, and the last dimension squeezed: shape `(ib…, output_dim)` and `out[b] = W[b]ᵀ · rhs`. -/
theorem left_t_interp_vector_def [CommRing α] (idx : Tn Nat) (val rhs : Tn α) (ib vb : List Nat) (D K outDim : Nat)
    (hi : idx.shape = ib ++ [D, K]) (hv : val.shape = vb ++ [D, K]) (hr : rhs.shape = [D])
    (b : List Nat) (hb : b.length = ib.length) (q : Nat) :
    ∃ t, leftTInterp idx val rhs outDim = .ok t ∧ t.shape = ib ++ [outDim] ∧
      t.get (b ++ [q]) = sumN D fun d =>
        interpW K (fun d k => idx.get (restrictIdx ib b ++ [d, k])) (fun d k => val.get (restrictIdx vb b ++ [d, k])) d q
          * rhs.get [d] := by
  have e1 : (ib ++ [D, K]).length - 2 = ib.length := app2_length_sub _ _ _
  have e2 : (vb ++ [D, K]).length - 2 = vb.length := app2_length_sub _ _ _
  have e4 : (vb ++ [D, K]).length - 1 = vb.length + 1 := by simp
  have hmb := matmulBroadcastShape_dense2d ib outDim D 1
  have e3 : (ib ++ [outDim, 1]).dropLast = ib ++ [outDim] := by
    rw [show ib ++ [outDim, 1] = (ib ++ [outDim]) ++ [1] by simp, List.dropLast_concat]
  have e5 : (ib ++ [outDim, 1]).length - 2 = ib.length := app2_length_sub _ _ _
  refine ⟨⟨ib ++ [outDim], fun o =>
      leftTInterpCore D K (fun d k => idx.get (restrictIdx ib ((o ++ [0]).take ib.length) ++ [d, k]))
        (fun d k => val.get (restrictIdx vb ((o ++ [0]).take ib.length) ++ [d, k]))
        (fun d => rhs.get ((restrictIdx [] ((o ++ [0]).take ib.length) ++ [d, (o ++ [0]).getD (ib.length + 1) 0]).dropLast))
        ((o ++ [0]).getD ib.length 0)⟩, ?_, rfl, ?_⟩
  · simp [leftTInterp, hi, hv, hr, e1, e2, e4, app2_get0, app2_get1, app2_take, hmb, e3, e5]
  · dsimp only
    have e6 : b ++ [q] ++ [0] = b ++ [q, 0] := by simp
    rw [e6, ← hb, app2_take, app2_get0]
    have e7 : ∀ a k, (restrictIdx [] b ++ [a, k]).dropLast = [a] := by
      intro a k; simp [restrictIdx]
    simp only [e7]
    exact left_t_interp_def D K _ _ _ q

end LinOp.C20
