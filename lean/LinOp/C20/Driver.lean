import LinOp.Core.Parse
import LinOp.C20.Model
import LinOp.C20.Model2
/-! Line-protocol driver for the C20 kernel models (exact rationals).
Tensors travel as `shape|values` (row-major), sparse tensors as `shape|indices|values`
(indices entry-major: nnz × ndim).  Output: `T shape|values`, `V value`, or `ERR <exception class>`. -/
open LinOp LinOp.C20 LinOp.Parse

abbrev Q := Rat

def mkTn (shape : List Nat) (data : Array Q) : Tn Q := ⟨shape, fun idx => data.getD (flat shape idx) 0⟩

def parseTn? (s : String) : Option (Tn Q) :=
  match s.splitOn "|" with
  | [sh, vs] => do
    let shape ← parseNats? sh
    let vals ← parseRats? vs
    pure (mkTn shape vals.toArray)
  | _ => none

def toNatTn (t : Tn Q) : Tn Nat := ⟨t.shape, fun i => (t.get i).num.toNat⟩

def chunk (k : Nat) (l : List Nat) : Nat → List (List Nat)
  | 0 => []
  | f + 1 => if l.isEmpty then [] else l.take k :: chunk k (l.drop k) f

def parseSp? (s : String) : Option (Sp Q) :=
  match s.splitOn "|" with
  | [sh, is, vs] => do
    let shape ← parseNats? sh
    let idx ← parseNats? is
    let vals ← parseRats? vs
    let tuples := chunk shape.length idx vals.length
    pure ⟨shape, tuples.zip vals⟩
  | _ => none

def showTn (t : Tn Q) : String :=
  "T " ++ showList toString t.shape ++ "|" ++ showList showRat ((allIdx t.shape).map t.get)

def showNatTn (t : Tn Nat) : String :=
  "T " ++ showList toString t.shape ++ "|" ++ showList toString ((allIdx t.shape).map t.get)

def showSp (s : Sp Q) : String := showTn ⟨s.shape, densify s.ents⟩

def showE (r : Except String (Tn Q)) : String :=
  match r with
  | .ok t => showTn t
  | .error e => "ERR " ++ e

def matOf (t : Tn Q) : M Q := fun i j => t.get [i, j]
def vecOf (t : Tn Q) : Nat → Q := fun i => t.get [i]

def parseOptInt? (s : String) : Option (Option Int) :=
  if s = "n" then some none else s.toInt?.map some

def parseIx? (s : String) : Option Ix :=
  if s.startsWith "i" then (s.drop 1).toString.toInt?.map Ix.int
  else if s.startsWith "s" then
    match ((s.drop 1).toString.splitOn ":") with
    | [a, b, c] => do
      let a ← parseOptInt? a
      let b ← parseOptInt? b
      let c ← parseOptInt? c
      pure (Ix.slice a b c)
    | _ => none
  else none

def eps : Q := mkRat 1 1000000

def run (ws : List String) : Option String :=
  match ws with
  | ["toeplitz", c, r] => do
    let c ← parseTn? c; let r ← parseTn? r
    let nc := c.shape.getD 0 0; let nr := r.shape.getD 0 0
    match toeplitz nc nr (vecOf c) (vecOf r) (fun _ _ => 0) with
    | .ok T => pure (showTn ⟨[nc, nc], fun i => T (i.getD 0 0) (i.getD 1 0)⟩)
    | .error e => pure ("ERR " ++ e)
  | ["tgetitem", c, r, i, j] => do
    let c ← parseTn? c; let r ← parseTn? r
    let i ← i.toNat?; let j ← j.toNat?
    pure ("V " ++ showRat (toeplitzGetitem (vecOf c) (vecOf r) i j))
  | ["tgetitemz", c, r, i, j] => do
    let c ← parseTn? c; let r ← parseTn? r
    let i ← i.toInt?; let j ← j.toInt?
    match toeplitzGetitemZ (c.shape.getD 0 0) (vecOf c) (vecOf r) i j with
    | .ok v => pure ("V " ++ showRat v)
    | .error e => pure ("ERR " ++ e)
  | ["bdsmmflat", s, d] => do
    let s ← parseSp? s; let d ← parseTn? d
    match bdsmmFlat s d with
    | .error e => pure ("ERR " ++ e)
    | .ok f =>
      -- one vector: shape and dense content of `sparse_2d`, then shape and content of `dense_2d`
      let sv := (allIdx f.sparse2d.shape).map (densify f.sparse2d.ents)
      let dv := (allIdx f.dense2d.shape).map f.dense2d.get
      let vals : List Q := f.sparse2d.shape.map (fun (n : Nat) => (mkRat n 1 : Q)) ++ sv ++ f.dense2d.shape.map (fun (n : Nat) => (mkRat n 1 : Q)) ++ dv
      pure ("T " ++ toString vals.length ++ "|" ++ showList showRat vals)
  | ["tmatmul", f, c, r, x] => do
    let c ← parseTn? c; let r ← parseTn? r; let x ← parseTn? x
    pure (showE (toeplitzMatmul (f = "1") c r x))
  | ["dqf", l, r] => do
    let l ← parseTn? l; let r ← parseTn? r
    pure (showTn (dqf l r))
  | ["linterp", i, v, x] => do
    let i ← parseTn? i; let v ← parseTn? v; let x ← parseTn? x
    pure (showE (leftInterp (toNatTn i) v x))
  | ["ltinterp", i, v, x, od] => do
    let i ← parseTn? i; let v ← parseTn? v; let x ← parseTn? x; let od ← od.toNat?
    pure (showE (leftTInterp (toNatTn i) v x od))
  | ["mksparse", i, v, nr] => do
    let i ← parseTn? i; let v ← parseTn? v; let nr ← nr.toNat?
    let nbd := v.shape.length - 2
    let bs := v.shape.take nbd
    let T := v.shape.getD nbd 0; let K := v.shape.getD (nbd + 1) 0
    let s := makeSparse bs T K (fun p => (i.get (unflat i.shape p)).num.toNat) (fun p => v.get (unflat v.shape p)) nr
    pure (showSp s ++ " nnz=" ++ toString s.ents.length)
  | ["bdsmm", f, s, d] => do
    let s ← parseSp? s; let d ← parseTn? d
    pure (showE (bdsmm (f = "1") s d))
  | ["dsmmback", f, s, g] => do
    let s ← parseSp? s; let g ← parseTn? g
    pure (showE (dsmmBackward (f = "1") s g))
  | ["speye", n] => do
    let n ← n.toNat?
    pure (showSp (sparseEye n))
  | ["tosparse", d] => do
    let d ← parseTn? d
    let s := toSparse d
    pure (showSp s ++ " nnz=" ++ toString s.ents.length)
  | ["sprepeat", f, s, reps] => do
    let s ← parseSp? s; let reps ← parseNats? reps
    pure (showSp (sparseRepeat (f = "1") s reps))
  | ["spgetitem", f, s, items] => do
    let s ← parseSp? s
    let ixs ← (items.splitOn ";").mapM parseIx?
    match sparseGetitem (f = "1") s ixs with
    | .error e => pure ("ERR " ++ e)
    | .ok (.inl v) => pure ("V " ++ showRat v)
    | .ok (.inr r) => pure (showSp r)
  | ["perm", k, l, r] => do
    let k ← parseTn? k
    let l ← if l = "N" then some none else (parseTn? l).map (fun t => some (toNatTn t))
    let r ← if r = "N" then some none else (parseTn? r).map (fun t => some (toNatTn t))
    pure (showE (applyPerm k l r))
  | ["invperm", p] => do
    let p ← parseTn? p
    pure (showNatTn (inversePerm (toNatTn p)))
  | ["stableqr", f, r] => do
    let r ← parseTn? r
    let k := min (r.shape.getD 0 0) (r.shape.getD 1 0)
    match stableQr (f = "1") eps k (r.shape.getD 1 0) (matOf r) with
    | .ok R' => pure (showTn ⟨r.shape, fun i => R' (i.getD 0 0) (i.getD 1 0)⟩)
    | .error e => pure ("ERR " ++ e)
  | ["pinv", m, n, qa, ra, qat, rat] => do
    let m ← m.toNat?; let n ← n.toNat?
    let qa ← parseTn? qa; let ra ← parseTn? ra; let qat ← parseTn? qat; let rat ← parseTn? rat
    let P := stablePinverse eps m n (matOf qa, matOf ra) (matOf qat, matOf rat)
    pure (showTn ⟨[n, m], fun i => P (i.getD 0 0) (i.getD 1 0)⟩)
  | ["mbshape", a, b] => do
    let a ← parseNats? a; let b ← parseNats? b
    match matmulBroadcastShape a b with
    | .ok s => pure ("SHAPE " ++ showList toString s)
    | .error e => pure ("ERR " ++ e)
  | _ => none

def stepLine (_ : Unit) (line : String) : Unit × String :=
  ((), (run (words line)).getD "bad-op")

def main : IO Unit := do
  loop (← IO.getStdin) () stepLine
