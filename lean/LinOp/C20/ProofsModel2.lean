import LinOp.C20.Model2
import LinOp.C20.ProofsBdsmm
import LinOp.C20.ProofsPermQr
/-! C20 (extension session 5) — `bdsmm` factors through its intermediate state; `toeplitz_getitem` on arbitrary ints. -/
namespace LinOp.C20

variable {α : Type}

/-- the first branch of `bdsmm` IS `bdsmmUnflat ∘ bdsmmFlat`: the intermediate state compared by the `bdsmm_flat` cells is
the one the final result is computed from. -/
theorem bdsmm_eq_flat [Add α] [Zero α] [Mul α] (s : Sp α) (d : Tn α) (hsl : s.shape.length > 2) :
    bdsmm true s d = (bdsmmFlat s d).map bdsmmUnflat := by
  simp only [bdsmm, bdsmmFlat, hsl, if_true]
  cases matmulBroadcastShape s.shape d.shape with
  | error e => rfl
  | ok out =>
    simp only [Except.map, bdsmmUnflat, List.length_take]
    congr 1
    congr 1
    · funext o
      have hmin : min (out.length - 2) out.length = out.length - 2 := by omega
      simp only [hmin, List.getD_cons_zero, List.getD_cons_succ]

/-- `toeplitz_getitem` depends on `i - j` only: shifting both indices by any integer changes nothing (so negative and
beyond-`n` indices are accepted as long as `|i - j| < n`). -/
theorem toeplitz_getitem_shift (n : Nat) (c r : Nat → α) (i j o : Int) :
    toeplitzGetitemZ n c r (i + o) (j + o) = toeplitzGetitemZ n c r i j := by
  have h : i + o - (j + o) = i - j := by omega
  simp only [toeplitzGetitemZ, h]

/-- in range (`|i - j| < n`) the lookup is the dense Toeplitz entry by difference; otherwise it raises `IndexError`. -/
theorem toeplitz_getitem_int_def (n : Nat) (c r : Nat → α) (i j : Int) :
    toeplitzGetitemZ n c r i j =
      if (i - j).natAbs < n then .ok (if j ≤ i then c (i - j).toNat else r (j - i).toNat) else .error "IndexError" := by
  unfold toeplitzGetitemZ
  by_cases h : i - j < 0
  · have h1 : ¬ j ≤ i := by omega
    have h2 : (i - j).natAbs = (j - i).toNat := by omega
    simp only [h, if_true, h1, if_false, h2]
  · have h1 : j ≤ i := by omega
    have h2 : (i - j).natAbs = (i - j).toNat := by omega
    simp only [h, if_false, h1, if_true, h2]

/-- on natural indices inside the matrix the integer version agrees with `toeplitzGetitem` (and hence with `toeplitzEntry`) -/
theorem toeplitz_getitem_nat (n : Nat) (c r : Nat → α) (i j : Nat) (hi : i < n) (hj : j < n) :
    toeplitzGetitemZ n c r i j = .ok (toeplitzGetitem c r i j) := by
  unfold toeplitzGetitemZ toeplitzGetitem
  by_cases h : (i : Int) - (j : Int) < 0
  · have h2 : ((i : Int) - (j : Int)).natAbs < n := by omega
    simp only [h, if_true, h2]
  · have h2 : ((i : Int) - (j : Int)).toNat < n := by omega
    simp only [h, if_false, h2, if_true]

/-- `inverse_permutation` on a batch of permutation vectors of shape `(*batch, n)`, ANY batch shape: `inv[b, p[b, i]] = i` for every
batch member that is injective. -/
theorem inverse_perm_batched_def (p : Tn Nat) (bs : List Nat) (n : Nat) (hp : p.shape = bs ++ [n]) (b : List Nat)
    (hinj : ∀ x y, x < n → y < n → p.get (b ++ [x]) = p.get (b ++ [y]) → x = y) (i : Nat) (hi : i < n) :
    (inversePerm p).shape = bs ++ [n] ∧ (inversePerm p).get (b ++ [p.get (b ++ [i])]) = i := by
  constructor
  · simp only [inversePerm, hp]
  · have e1 : (bs ++ [n]).length - 1 = bs.length := by simp
    have e2 : (bs ++ [n]).getD bs.length 0 = n := by simp
    have e3 : (b ++ [p.get (b ++ [i])]).dropLast = b := List.dropLast_concat
    have e4 : (b ++ [p.get (b ++ [i])]).getD ((b ++ [p.get (b ++ [i])]).length - 1) 0 = p.get (b ++ [i]) := by simp
    simp only [inversePerm, hp, e1, e2, e3, e4]
    exact inverse_perm_def n (fun a => p.get (b ++ [a])) hinj i hi

end LinOp.C20
