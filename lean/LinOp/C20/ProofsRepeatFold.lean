import LinOp.C20.ProofsSparse
/-! C20 (extension session 5) — `sparse_repeat`: the WHOLE loop `for i, repeat_size in enumerate(repeat_sizes)` over any list of
repeat sizes equals the dense `repeat` (`out[idx] = s[idx mod shape]`), by induction on the list of repeat sizes with the
one-dimension theorem `sparse_repeat_def` as the step. -/
namespace LinOp.C20

open SparseAux

variable {α : Type}

/-- reduce positions `i .. i+n-1` of a multi-index modulo the corresponding sizes -/
def modAt (i n : Nat) (shape idx : List Nat) : List Nat :=
  (List.range idx.length).map fun k => if i ≤ k ∧ k < i + n then idx.getD k 0 % shape.getD k 0 else idx.getD k 0

/-- every stored index tuple has the rank of the shape and lies inside its box -/
def EntsInBox (s : Sp α) : Prop :=
  ∀ e ∈ s.ents, e.1.length = s.shape.length ∧ ∀ k, k < s.shape.length → e.1.getD k 0 < s.shape.getD k 0

namespace RepeatAux

theorem modAt_length (i n : Nat) (shape idx : List Nat) : (modAt i n shape idx).length = idx.length := by
  simp [modAt]

theorem modAt_getD (i n : Nat) (shape idx : List Nat) (k : Nat) (hk : k < idx.length) :
    (modAt i n shape idx).getD k 0 = if i ≤ k ∧ k < i + n then idx.getD k 0 % shape.getD k 0 else idx.getD k 0 := by
  simp [modAt, List.getD_eq_getElem?_getD, hk]

theorem modAt_zero (i : Nat) (shape idx : List Nat) : modAt i 0 shape idx = idx := by
  apply List.ext_getElem
  · simp [modAt]
  · intro q h1 h2
    simp [modAt, List.getD_eq_getElem?_getD, h2]
    intro a b; omega

theorem getD_set_ne (l : List Nat) (i k v : Nat) (h : k ≠ i) : (l.set i v).getD k 0 = l.getD k 0 := by
  simp [List.getD_eq_getElem?_getD, List.getElem?_set_ne (Ne.symm h)]

theorem repeatDim_shape (i rep : Nat) (s : Sp α) :
    (repeatDim true i rep s).shape = if rep > 1 then s.shape.set i (rep * s.shape.getD i 0) else s.shape := by
  unfold repeatDim
  split <;> rfl

theorem repeatDim_shape_length (i rep : Nat) (s : Sp α) :
    (repeatDim true i rep s).shape.length = s.shape.length := by
  rw [repeatDim_shape]
  split <;> simp

theorem repeatDim_shape_getD_ne (i rep k : Nat) (s : Sp α) (h : k ≠ i) :
    (repeatDim true i rep s).shape.getD k 0 = s.shape.getD k 0 := by
  rw [repeatDim_shape]
  split
  · exact getD_set_ne _ _ _ _ h
  · rfl

/-- `repeatDim` keeps every stored index inside the (enlarged) box -/
theorem repeatDim_inBox (i rep : Nat) (s : Sp α) (hi : i < s.shape.length) (h : EntsInBox s) :
    EntsInBox (repeatDim true i rep s) := by
  by_cases hrep : rep > 1
  · intro e he
    have hsh : (repeatDim true i rep s).shape = s.shape.set i (rep * s.shape.getD i 0) := by
      rw [repeatDim_shape, if_pos hrep]
    simp only [repeatDim, if_pos hrep, if_true, List.mem_flatMap, List.mem_range, List.mem_map] at he
    obtain ⟨k, hk, e0, he0, rfl⟩ := he
    obtain ⟨hl, hb⟩ := h e0 he0
    rw [hsh]
    refine ⟨by simp [hl], ?_⟩
    intro q hq
    have hq' : q < s.shape.length := by simpa using hq
    by_cases hqi : q = i
    · subst hqi
      show (e0.1.set q (e0.1.getD q 0 + k * s.shape.getD q 0)).getD q 0 < _
      rw [getD_set_self _ _ _ (by omega), getD_set_self _ _ _ hq']
      have h1 := hb q hq'
      calc e0.1.getD q 0 + k * s.shape.getD q 0 < s.shape.getD q 0 + k * s.shape.getD q 0 := by omega
        _ = (k + 1) * s.shape.getD q 0 := by rw [Nat.succ_mul, Nat.add_comm]
        _ ≤ rep * s.shape.getD q 0 := Nat.mul_le_mul_right _ hk
    · show (e0.1.set i (e0.1.getD i 0 + k * s.shape.getD i 0)).getD q 0 < _
      rw [getD_set_ne _ _ _ _ hqi, getD_set_ne _ _ _ _ hqi]
      exact hb q hq'
  · have : repeatDim true i rep s = s := by simp [repeatDim, hrep]
    rw [this]; exact h

theorem set_modAt (i n : Nat) (shape shape1 idx : List Nat) (_hi : i < idx.length)
    (hsh : ∀ k, k ≠ i → shape1.getD k 0 = shape.getD k 0) :
    (modAt (i + 1) n shape1 idx).set i (idx.getD i 0 % shape.getD i 0) = modAt i (n + 1) shape idx := by
  apply List.ext_getElem
  · simp [modAt]
  · intro q h1 h2
    have hq : q < idx.length := by simpa [modAt] using h2
    rw [List.getElem_set]
    by_cases hqi : i = q
    · subst hqi
      have hc : i ≤ i ∧ i < i + (n + 1) := by omega
      simp [modAt, hc]
    · rw [if_neg hqi]
      have hs := hsh q (Ne.symm hqi)
      simp only [List.getD_eq_getElem?_getD] at hs
      by_cases hc : i + 1 ≤ q ∧ q < i + 1 + n
      · have hc' : i ≤ q ∧ q < i + (n + 1) := by omega
        simp [modAt, hc, hc', hs]
      · have hc' : ¬ (i ≤ q ∧ q < i + (n + 1)) := by omega
        simp [modAt, hc, hc']

end RepeatAux

open RepeatAux

/-- the loop of `sparse_repeat` (current code) over ANY list of repeat sizes, started at dimension `i`: the result at `idx`
is the original tensor at `idx` with positions `i … i+len-1` reduced modulo the original sizes. -/
theorem repeat_loop_def [AddCommMonoid α] (reps : List Nat) : ∀ (i : Nat) (s : Sp α) (idx : List Nat),
    i + reps.length ≤ s.shape.length → idx.length = s.shape.length → EntsInBox s →
    (∀ k, k < reps.length → idx.getD (i + k) 0 < reps.getD k 0 * s.shape.getD (i + k) 0) →
    densify (repeatLoop true i reps s).ents idx = densify s.ents (modAt i reps.length s.shape idx) := by
  induction reps with
  | nil =>
    intro i s idx _ _ _ _
    simp only [repeatLoop, List.length_nil, modAt_zero]
  | cons rep rest ih =>
    intro i s idx hi hlen hbox hidx
    have hi' : i < s.shape.length := by simp only [List.length_cons] at hi; omega
    simp only [repeatLoop, List.length_cons]
    have hl1 := repeatDim_shape_length i rep s
    rw [ih (i + 1) (repeatDim true i rep s) idx (by rw [hl1]; simp only [List.length_cons] at hi; omega)
      (by rw [hl1]; exact hlen) (repeatDim_inBox i rep s hi' hbox) ?_]
    · have hg : (modAt (i + 1) rest.length (repeatDim true i rep s).shape idx).getD i 0 = idx.getD i 0 := by
        rw [modAt_getD _ _ _ _ _ (by omega)]
        have hc : ¬ (i + 1 ≤ i ∧ i < i + 1 + rest.length) := by omega
        rw [if_neg hc]
      rw [sparse_repeat_def i rep s _ hi' (by rw [modAt_length]; exact hlen)
        (fun e he => ⟨(hbox e he).1, (hbox e he).2 i hi'⟩)
        (by rw [hg]; have := hidx 0 (by simp); simpa using this)]
      rw [hg, set_modAt i rest.length s.shape _ idx (by omega)
        (fun k hk => repeatDim_shape_getD_ne i rep k s hk)]
    · intro k hk
      have h := hidx (k + 1) (by simp only [List.length_cons]; omega)
      have e1 : i + (k + 1) = i + 1 + k := by omega
      rw [e1] at h
      rw [repeatDim_shape_getD_ne i rep (i + 1 + k) s (by omega)]
      simpa using h

/-- `sparse_repeat(sparse, *repeat_sizes)` (current code) with one repeat size per dimension, ANY rank and ANY repeat sizes:
dense `repeat` semantics `out[idx] = s[idx mod shape]`. -/
theorem sparse_repeat_fold_def [AddCommMonoid α] (s : Sp α) (reps idx : List Nat)
    (hr : reps.length = s.shape.length) (hlen : idx.length = s.shape.length) (hbox : EntsInBox s)
    (hidx : ∀ k, k < reps.length → idx.getD k 0 < reps.getD k 0 * s.shape.getD k 0) :
    densify (sparseRepeat true s reps).ents idx = densify s.ents (modAt 0 s.shape.length s.shape idx) := by
  have h0 : ¬ (reps.length > s.shape.length) := by omega
  simp only [sparseRepeat, if_neg h0]
  rw [repeat_loop_def reps 0 s idx (by omega) hlen hbox (by simpa using hidx), hr]

end LinOp.C20
