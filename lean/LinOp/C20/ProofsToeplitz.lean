import LinOp.C20.Model
import Mathlib.Algebra.BigOperators.Intervals
import Mathlib.Algebra.BigOperators.Group.Finset.Piecewise
import Mathlib.Algebra.BigOperators.Group.Finset.Sigma
import Mathlib.Algebra.BigOperators.Ring.Finset
import Mathlib.Tactic.Ring

/-!
C20 — proofs about the Toeplitz kernels of `LinOp.C20.Model`:
`toeplitz`, `sym_toeplitz`, `toeplitz_getitem`, `toeplitz_matmul` (circulant embedding) and
`sym_toeplitz_derivative_quadratic_form`.
-/
namespace LinOp.C20

open Finset

/-! ## the loops of `toeplitz` -/

section loops

variable {α : Type}

theorem fillSub_apply (res : M α) (i : Nat) (v : α) (cnt a b : Nat) :
    fillSub res i v cnt a b = if a = b + i ∧ b < cnt then v else res a b := by
  induction cnt with
  | zero => simp [fillSub]
  | succ k ih =>
    simp only [fillSub, setM, ih]
    split_ifs <;> first | rfl | (exfalso; omega)

theorem fillSup_apply (res : M α) (i : Nat) (v : α) (cnt a b : Nat) :
    fillSup res i v cnt a b = if b = a + i ∧ a < cnt then v else res a b := by
  induction cnt with
  | zero => simp [fillSup]
  | succ k ih =>
    simp only [fillSup, setM, ih]
    split_ifs <;> first | rfl | (exfalso; omega)

theorem colLoop_apply (n : Nat) (c : Nat → α) (res : M α) (m a b : Nat) :
    colLoop n c res m a b = if b ≤ a ∧ a - b < m ∧ a < n then c (a - b) else res a b := by
  induction m with
  | zero => simp [colLoop]
  | succ k ih =>
    simp only [colLoop, fillSub_apply, ih]
    split_ifs <;> first | rfl | (exfalso; omega) | (congr 1; omega)

theorem rowLoop_apply (n : Nat) (r : Nat → α) (res : M α) (m a b : Nat) :
    rowLoop n r res m a b = if a < b ∧ b - a ≤ m ∧ b < n then r (b - a) else res a b := by
  induction m with
  | zero =>
    simp only [rowLoop]
    split_ifs <;> first | rfl | (exfalso; omega)
  | succ k ih =>
    simp only [rowLoop, fillSup_apply, ih]
    split_ifs <;> first | rfl | (exfalso; omega) | (congr 1; omega)

/-- loops of `toeplitz` write exactly the Toeplitz entries -/
theorem toeplitz_dense_def {α : Type} [DecidableEq α] (n : Nat) (c r : Nat → α) (junk : M α)
    (hn : 1 ≤ n) (h0 : c 0 = r 0) :
    ∃ T, toeplitz n n c r junk = .ok T ∧
      ∀ i j, i < n → j < n → T i j = toeplitzEntry c r i j := by
  by_cases h1 : n = 1
  · refine ⟨fun _ _ => c 0, ?_, ?_⟩
    · simp [toeplitz, h0, h1]
    · intro i j hi hj
      have hi0 : i = 0 := by omega
      have hj0 : j = 0 := by omega
      subst hi0 hj0
      simp [toeplitzEntry]
  · refine ⟨rowLoop n r (colLoop n c junk n) (n - 1), ?_, ?_⟩
    · simp [toeplitz, h0, h1]
    · intro i j hi hj
      simp only [rowLoop_apply, colLoop_apply, toeplitzEntry]
      split_ifs <;> first | rfl | (exfalso; omega)

/-- the two documented error conditions are the only ones -/
theorem toeplitz_raises_iff {α : Type} [DecidableEq α] (nc nr : Nat) (c r : Nat → α) (junk : M α) :
    (∃ e, toeplitz nc nr c r junk = .error e) ↔ (c 0 ≠ r 0 ∨ nc ≠ nr) := by
  unfold toeplitz
  split_ifs with h1 h2 h3 <;> simp_all

theorem sym_toeplitz_def {α : Type} [DecidableEq α] (n : Nat) (c : Nat → α) (junk : M α)
    (hn : 1 ≤ n) :
    ∃ T, symToeplitz n c junk = .ok T ∧
      ∀ i j, i < n → j < n → T i j = if j ≤ i then c (i - j) else c (j - i) :=
  toeplitz_dense_def n c c junk hn rfl

theorem toeplitz_getitem_def {α : Type} (c r : Nat → α) (i j : Nat) :
    toeplitzGetitem c r i j = toeplitzEntry c r i j := by
  simp only [toeplitzGetitem, toeplitzEntry]
  split_ifs <;> first | (exfalso; omega) | (congr 1; omega)

end loops

/-! ## circulant embedding and the quadratic-form derivative -/

section alg

variable {α : Type} [CommRing α]

theorem sumN_eq_sum (n : Nat) (f : Nat → α) : sumN n f = ∑ i ∈ Finset.range n, f i := by
  induction n with
  | zero => simp [sumN]
  | succ k ih => rw [sumN, ih, Finset.sum_range_succ]

/-- circulant embedding: the first n entries of circConv(embed c r, pad x) are T x -/
theorem toeplitz_matmul_embedding (n : Nat) (hn : 1 ≤ n) (c r x : Nat → α) (i : Nat) (hi : i < n) :
    toeplitzMatmulCore n c r x i = sumN n fun j => toeplitzEntry c r i j * x j := by
  unfold toeplitzMatmulCore circConv
  rw [sumN_eq_sum, sumN_eq_sum]
  have hL : 2 * n - 1 = n + (n - 1) := by omega
  rw [hL, Finset.sum_range_add]
  have hz : ∀ k ∈ range (n - 1),
      embed n c r ((i + (n + (n - 1)) - (n + k)) % (n + (n - 1))) * padX n x (n + k) = 0 := by
    intro k _
    simp only [padX]
    rw [if_neg (by omega), mul_zero]
  rw [Finset.sum_eq_zero hz, add_zero]
  apply Finset.sum_congr rfl
  intro m hm
  rw [Finset.mem_range] at hm
  simp only [padX, if_pos hm]
  congr 1
  simp only [embed, toeplitzEntry]
  by_cases hmi : m ≤ i
  · have h : (i + (n + (n - 1)) - m) % (n + (n - 1)) = i - m := by
      rw [show i + (n + (n - 1)) - m = (i - m) + (n + (n - 1)) by omega, Nat.add_mod_right,
        Nat.mod_eq_of_lt (by omega)]
    rw [h, if_pos (by omega), if_pos hmi]
  · have h : (i + (n + (n - 1)) - m) % (n + (n - 1)) = i + (n + (n - 1)) - m :=
      Nat.mod_eq_of_lt (by omega)
    rw [h, if_neg (by omega), if_neg hmi]
    congr 1
    omega

/-- first flipped product of `dqfCore`, one pair of vectors -/
theorem dqf_t1 (m : Nat) (u v : Nat → α) (i : Nat) :
    (∑ b ∈ range m, toeplitzEntry (fun k => if k = 0 then u 0 else 0) u i b * v b)
      = ∑ a ∈ range m, ∑ b ∈ range m, if b = a + i then u a * v b else 0 := by
  rw [Finset.sum_comm]
  apply Finset.sum_congr rfl
  intro b hb
  rw [Finset.mem_range] at hb
  by_cases h : i ≤ b
  · rw [Finset.sum_eq_single (b - i)]
    · rw [if_pos (by omega)]
      simp only [toeplitzEntry]
      split_ifs <;> first | rfl | (exfalso; omega) | (congr 2; omega)
    · intro a _ ha
      rw [if_neg (by omega)]
    · intro hnm
      exact absurd (Finset.mem_range.2 (by omega)) hnm
  · rw [Finset.sum_eq_zero (fun a _ => if_neg (by omega))]
    simp only [toeplitzEntry]
    rw [if_pos (by omega), if_neg (by omega), zero_mul]

/-- second flipped product of `dqfCore`, one pair of vectors -/
theorem dqf_t2 (m : Nat) (u v : Nat → α) (i : Nat) :
    (∑ b ∈ range m, toeplitzEntry (fun k => if k = 0 then u (m - 1) else 0)
        (fun k => u (m - 1 - k)) i b * v (m - 1 - b))
      = ∑ a ∈ range m, ∑ b ∈ range m, if a = b + i then u a * v b else 0 := by
  rw [Finset.sum_comm]
  have hcol : ∀ b ∈ range m, (∑ a ∈ range m, if a = b + i then u a * v b else 0)
      = (if b + i < m then u (b + i) else 0) * v b := by
    intro b _
    rw [Finset.sum_ite_eq']
    simp only [Finset.mem_range]
    split_ifs
    · rfl
    · rw [zero_mul]
  rw [Finset.sum_congr rfl hcol]
  refine Eq.trans ?_
    (Finset.sum_range_reflect (fun b => (if b + i < m then u (b + i) else 0) * v b) m)
  apply Finset.sum_congr rfl
  intro b hb
  rw [Finset.mem_range] at hb
  simp only [toeplitzEntry]
  congr 1
  split_ifs <;> first | rfl | (exfalso; omega) | (congr 1; omega)

theorem diag_sum (m : Nat) (u v : Nat → α) (P : Nat → Nat → Prop) [∀ a b, Decidable (P a b)]
    (hP : ∀ a b, P a b ↔ a = b) :
    (∑ a ∈ range m, ∑ b ∈ range m, if P a b then u a * v b else 0)
      = ∑ a ∈ range m, u a * v a := by
  apply Finset.sum_congr rfl
  intro a ha
  rw [Finset.sum_eq_single a]
  · rw [if_pos ((hP a a).2 rfl)]
  · intro b _ hb
    rw [if_neg]
    rw [hP]
    exact fun h => hb h.symm
  · intro h
    exact absurd ha h

/-- quadratic-form derivative -/
theorem toeplitz_dqf (m s : Nat) (hm : 1 ≤ m) (u v : Nat → Nat → α) (i : Nat) (hi : i < m) :
    dqfCore m s u v i = dqfSpec m s u v i := by
  have key1 : ∀ j, toeplitzMatmulCore m (fun k => if k = 0 then u j 0 else 0) (u j) (v j) i
      = ∑ a ∈ range m, ∑ b ∈ range m, if b = a + i then u j a * v j b else 0 := by
    intro j
    rw [toeplitz_matmul_embedding m hm _ _ _ i hi, sumN_eq_sum]
    exact dqf_t1 m (u j) (v j) i
  have key2 : ∀ j, toeplitzMatmulCore m (fun k => if k = 0 then u j (m - 1) else 0)
        (fun k => u j (m - 1 - k)) (fun k => v j (m - 1 - k)) i
      = ∑ a ∈ range m, ∑ b ∈ range m, if a = b + i then u j a * v j b else 0 := by
    intro j
    rw [toeplitz_matmul_embedding m hm _ _ _ i hi, sumN_eq_sum]
    exact dqf_t2 m (u j) (v j) i
  simp only [dqfCore, dqfSpec, key1, key2, sumN_eq_sum]
  by_cases h : i = 0
  · rw [if_pos h, ← Finset.sum_sub_distrib]
    apply Finset.sum_congr rfl
    intro j _
    have hA : (∑ a ∈ range m, ∑ b ∈ range m, if b = a + i then u j a * v j b else 0)
        = ∑ a ∈ range m, u j a * v j a :=
      diag_sum m (u j) (v j) (fun a b => b = a + i) (by intros; omega)
    have hB : (∑ a ∈ range m, ∑ b ∈ range m, if a = b + i then u j a * v j b else 0)
        = ∑ a ∈ range m, u j a * v j a :=
      diag_sum m (u j) (v j) (fun a b => a = b + i) (by intros; omega)
    have hR : (∑ a ∈ range m, ∑ b ∈ range m,
          if (a = b + i ∨ b = a + i) then u j a * v j b else 0)
        = ∑ a ∈ range m, u j a * v j a :=
      diag_sum m (u j) (v j) (fun a b => a = b + i ∨ b = a + i) (by intros; omega)
    rw [hA, hB, hR, add_sub_cancel_right]
  · rw [if_neg h]
    apply Finset.sum_congr rfl
    intro j _
    rw [← Finset.sum_add_distrib]
    apply Finset.sum_congr rfl
    intro a _
    rw [← Finset.sum_add_distrib]
    apply Finset.sum_congr rfl
    intro b _
    split_ifs <;> first | (exfalso; omega) | rw [add_zero] | rw [zero_add]

end alg

end LinOp.C20
