/-! Hand-kept baseline of `LinOp/Generated/C19Ext.lean` (the shape-relevant skeleton of the `add_diagonal` overrides, `rmatmul`,
the Cat constructor, `cat_rows`, `add_low_rank`) that `LinOp/C19/ExtModel.lean` mirrors.  A change of one of these bodies in /repo makes
`ext_bodies_are_the_known_ones` fail; update the model (and this table) together. -/
namespace LinOp.C19.KnownExt

/-- (class that defines `add_diagonal`, shape-relevant events of its body in source order) -/
def knownAddDiagonalBodies : List (String × List String) := [
  ("AddedDiagLinearOperator", ["new self.__class__(self._linear_op, self._diag_tensor.add_diagonal(diag))", "call self._diag_tensor.add_diagonal(diag)"]),
  ("DiagLinearOperator", ["call torch.broadcast_shapes(self._diag.shape, diag.shape)", "new DiagLinearOperator(self._diag.expand(shape) + diag.expand(shape))", "call self._diag.expand(shape)", "call diag.expand(shape)"]),
  ("KroneckerProductLinearOperator", ["if not self.is_square", "raise", "if len(diag_shape) == 0", "new ConstantDiagLinearOperator(diag.unsqueeze(-1), diag_shape=self.shape[-1])", "if diag_shape[-1] == 1", "new ConstantDiagLinearOperator(diag, diag_shape=self.shape[-1])", "call diag.expand(torch.broadcast_shapes(self.shape[:-1], diag_shape))", "call torch.broadcast_shapes(self.shape[:-1], diag_shape)", "raise", "new DiagLinearOperator(expanded_diag)", "new KroneckerProductAddedDiagLinearOperator(self, diag_tensor)"]),
  ("LinearOperator", ["if not self.is_square", "raise", "if len(diag_shape) and diag_shape[-1] != 1", "call diag.expand(self.shape[:-1])", "raise", "new DiagLinearOperator(expanded_diag)", "call diag.expand(*self.batch_shape, 1)", "raise", "new ConstantDiagLinearOperator(expanded_diag, diag_shape=self.shape[-1])", "new AddedDiagLinearOperator(self, diag_tensor)"]),
  ("LowRankRootLinearOperator", ["if not self.is_square", "raise", "if len(diag_shape) == 0", "new ConstantDiagLinearOperator(diag.unsqueeze(-1), diag_shape=self.shape[-1])", "if diag_shape[-1] == 1", "new ConstantDiagLinearOperator(diag, diag_shape=self.shape[-1])", "call diag.expand(self.shape[:-1])", "raise", "new DiagLinearOperator(expanded_diag)", "new LowRankRootAddedDiagLinearOperator(self, diag_tensor)"]),
  ("TriangularLinearOperator", ["call self._tensor.add_diagonal(diag)", "new self.__class__(added_diag_lt, upper=self.upper)"]),
  ("ZeroLinearOperator", ["if self.size(-1) != self.size(-2)", "raise", "if self.ndimension() == 3", "if diag.ndimension() == 0", "call diag.view(1, 1).expand(self.size(0), self.size(1))", "if diag.ndimension() == 1", "call diag.unsqueeze(0).expand(self.size(0), self.size(1))", "if diag.ndimension() == 2", "call diag.expand(self.size(0), self.size(1))", "raise", "if diag.ndimension() == 0", "call diag.view(1).expand(self.size(0))", "if diag.ndimension() == 1", "call diag.expand(self.size(0))", "raise", "new DiagLinearOperator(diag)", "if res.size() != self.size()", "raise"])]

/-- (class that defines `rmatmul`, its `if` tests and `return` expressions) -/
def knownRmatmulBodies : List (String × List String) := [
  ("LinearOperator", ["if other.ndim == 1", "return self.mT.matmul(other.mT).mT", "return self.mT.matmul(other)"])]

/-- Cat `_check_args` / `__init__`, base `__init__` (debug gate), `cat_rows`, `add_low_rank` -/
def knownCatBodies : List (String × List String) := [
  ("CatLinearOperator._check_args", ["if len(linear_ops) == 0", "if not all([isinstance(t, LinearOperator) for t in linear_ops])", "del rep_tensor_noncat_shape[dim]", "if len(linear_ops) == 1", "if t.dim() != rep_tensor.dim()", "del t_noncat_shape[dim]", "if t_noncat_shape != rep_tensor_noncat_shape", "raises=5"]),
  ("CatLinearOperator.__init__", ["self._shape = torch.Size((*rep_tensor.shape[:positive_dim], cat_dim_cum_sizes[-1].item(), *rep_tensor.shape[positive_dim + 1:]))", "no _check_args call"]),
  ("LinearOperator.__init__", ["if settings.debug.on()", "calls _check_args"]),
  ("LinearOperator.cat_rows", ["if not self.is_square", "if self.ndimension() < cross_mat.ndimension()", "call torch.broadcast_shapes(self.shape[:-2], B.shape[:-2])", "call self.expand(expand_shape)", "new CatLinearOperator(A, B, dim=-2, output_device=A.device)", "new CatLinearOperator(B.mT, D, dim=-2, output_device=A.device)", "new CatLinearOperator(upper_row, lower_row, dim=-1, output_device=A.device)"]),
  ("LinearOperator.add_low_rank", ["new_linear_op = self + to_linear_operator(low_rank_mat.matmul(low_rank_mat.mT))", "new_linear_op = SumLinearOperator(*self.linear_ops, to_linear_operator(low_rank_mat.matmul(low_rank_mat.mT)))"]),
  ("RootLinearOperator.add_low_rank", [])]

/-- (operator class, class that defines its `add_diagonal` in the MRO) -/
def knownAddDiagonalDefiners : List (String × String) := [
  ("AbstractPermutationLinearOperator", "LinearOperator"),
  ("AddedDiagLinearOperator", "AddedDiagLinearOperator"),
  ("BatchRepeatLinearOperator", "LinearOperator"),
  ("BlockDiagLinearOperator", "LinearOperator"),
  ("BlockInterleavedLinearOperator", "LinearOperator"),
  ("BlockLinearOperator", "LinearOperator"),
  ("CatLinearOperator", "LinearOperator"),
  ("CholLinearOperator", "LinearOperator"),
  ("ConstantDiagLinearOperator", "DiagLinearOperator"),
  ("ConstantMulLinearOperator", "LinearOperator"),
  ("DenseLinearOperator", "LinearOperator"),
  ("DiagLinearOperator", "DiagLinearOperator"),
  ("IdentityLinearOperator", "DiagLinearOperator"),
  ("InterpolatedLinearOperator", "LinearOperator"),
  ("KeOpsLinearOperator", "LinearOperator"),
  ("KernelLinearOperator", "LinearOperator"),
  ("KroneckerProductAddedDiagLinearOperator", "AddedDiagLinearOperator"),
  ("KroneckerProductDiagLinearOperator", "DiagLinearOperator"),
  ("KroneckerProductLinearOperator", "KroneckerProductLinearOperator"),
  ("KroneckerProductTriangularLinearOperator", "KroneckerProductLinearOperator"),
  ("LinearOperator", "LinearOperator"),
  ("LowRankRootAddedDiagLinearOperator", "AddedDiagLinearOperator"),
  ("LowRankRootLinearOperator", "LowRankRootLinearOperator"),
  ("MaskedLinearOperator", "LinearOperator"),
  ("MatmulLinearOperator", "LinearOperator"),
  ("MulLinearOperator", "LinearOperator"),
  ("PermutationLinearOperator", "LinearOperator"),
  ("PsdSumLinearOperator", "LinearOperator"),
  ("RootLinearOperator", "LinearOperator"),
  ("SumBatchLinearOperator", "LinearOperator"),
  ("SumKroneckerLinearOperator", "LinearOperator"),
  ("SumLinearOperator", "LinearOperator"),
  ("ToeplitzLinearOperator", "LinearOperator"),
  ("TransposePermutationLinearOperator", "LinearOperator"),
  ("TriangularLinearOperator", "TriangularLinearOperator"),
  ("ZeroLinearOperator", "ZeroLinearOperator")]

end LinOp.C19.KnownExt
