/-!
C19 — delegation chains of the solve-type methods (`solve`, `inv_quad`, `inv_quad_logdet`, `sqrt_inv_matmul`) and of the hooks they
reach (`_solve`, `_cholesky_solve`, `_inv_matmul`, `_maybe_reshape_rhs`, `solve_triangular`), per class: which hooks / helpers the
body calls, `:U` on every path, `:C` only on some.  Hand-maintained baseline (NOT generated); the table regenerated from the source
on every run must equal it (`delegations_are_the_known_ones`).  The right-hand-side guard of a public method often lives further down
this chain (Chol.solve → root._cholesky_solve → KroneckerProductTriangular.solve → guard); re-routing a hook past the guarded method,
or making a guarded call conditional, changes this table.
-/
namespace LinOp.C19

def knownDelegations : List (String × String × List String) := [
  ("AbstractPermutationLinearOperator", "_solve", ["inverse:U"]),
  ("BatchRepeatLinearOperator", "inv_quad_logdet", ["_matmul_broadcast_shape:C", "inv_quad_logdet:U"]),
  ("BatchRepeatLinearOperator", "_cholesky_solve", ["_cholesky_solve:U", "_matmul_broadcast_shape:U", "expand:C"]),
  ("BlockDiagLinearOperator", "inv_quad_logdet", ["inv_quad_logdet:U"]),
  ("BlockDiagLinearOperator", "_solve", ["_solve:C"]),
  ("BlockDiagLinearOperator", "_cholesky_solve", ["_cholesky_solve:U"]),
  ("BlockInterleavedLinearOperator", "inv_quad_logdet", ["inv_quad_logdet:U"]),
  ("BlockInterleavedLinearOperator", "_solve", ["_solve:C"]),
  ("BlockInterleavedLinearOperator", "_cholesky_solve", ["_cholesky_solve:U"]),
  ("CatLinearOperator", "inv_quad_logdet", ["inv_quad_logdet:U"]),
  ("CholLinearOperator", "solve", ["_cholesky_solve:U", "_matmul_broadcast_shape:U"]),
  ("CholLinearOperator", "inv_quad", ["solve:C"]),
  ("CholLinearOperator", "inv_quad_logdet", ["inv_quad:C"]),
  ("CholLinearOperator", "_solve", ["_cholesky_solve:C", "_solve:C"]),
  ("ConstantDiagLinearOperator", "solve_triangular", []),
  ("DenseLinearOperator", "_cholesky_solve", ["cholesky_solve:U"]),
  ("DiagLinearOperator", "solve", ["_matmul:U", "inverse:U"]),
  ("DiagLinearOperator", "inv_quad_logdet", ["_matmul_broadcast_shape:C"]),
  ("DiagLinearOperator", "sqrt_inv_matmul", ["matmul:C"]),
  ("DiagLinearOperator", "_cholesky_solve", []),
  ("DiagLinearOperator", "solve_triangular", ["solve:C"]),
  ("IdentityLinearOperator", "solve", ["_maybe_reshape_rhs:U"]),
  ("IdentityLinearOperator", "inv_quad_logdet", ["_matmul_broadcast_shape:C", "expand:C"]),
  ("IdentityLinearOperator", "sqrt_inv_matmul", ["_maybe_reshape_rhs:C"]),
  ("IdentityLinearOperator", "_cholesky_solve", ["_maybe_reshape_rhs:U"]),
  ("IdentityLinearOperator", "_maybe_reshape_rhs", ["_matmul_broadcast_shape:U", "broadcast_shapes:C", "expand:C"]),
  ("KroneckerProductAddedDiagLinearOperator", "inv_quad_logdet", ["inv_quad_logdet:C"]),
  ("KroneckerProductAddedDiagLinearOperator", "_solve", ["_solve:C", "matmul:C", "solve:C"]),
  ("KroneckerProductLinearOperator", "inv_quad_logdet", ["inv_quad_logdet:C"]),
  ("KroneckerProductLinearOperator", "_solve", ["broadcast_shapes:U", "expand:U", "solve:C"]),
  ("KroneckerProductLinearOperator", "_inv_matmul", ["_solve:U"]),
  ("KroneckerProductTriangularLinearOperator", "solve", ["_inv_matmul:U", "_matmul_broadcast_shape:U"]),
  ("KroneckerProductTriangularLinearOperator", "_cholesky_solve", ["solve:C"]),
  ("LinearOperator", "solve", ["_matmul_broadcast_shape:U", "apply:C"]),
  ("LinearOperator", "inv_quad", ["_matmul_broadcast_shape:C", "expand:U"]),
  ("LinearOperator", "inv_quad_logdet", ["cholesky:C", "inv_quad:C", "inv_quad_logdet:C"]),
  ("LinearOperator", "sqrt_inv_matmul", ["apply:U"]),
  ("LinearOperator", "_solve", ["linear_cg:U"]),
  ("LinearOperator", "_cholesky_solve", []),
  ("LinearOperator", "solve_triangular", []),
  ("LowRankRootAddedDiagLinearOperator", "solve", ["_matmul_broadcast_shape:U", "_solve:U"]),
  ("LowRankRootAddedDiagLinearOperator", "inv_quad_logdet", ["_solve:C"]),
  ("LowRankRootAddedDiagLinearOperator", "_solve", ["cholesky_solve:U", "inverse:U", "matmul:U"]),
  ("SumKroneckerLinearOperator", "inv_quad_logdet", ["solve:C"]),
  ("SumKroneckerLinearOperator", "_solve", ["matmul:U", "solve:U"]),
  ("TriangularLinearOperator", "solve", ["_matmul_broadcast_shape:C", "_solve:C", "expand:C", "solve:C", "solve_triangular:C"]),
  ("TriangularLinearOperator", "inv_quad_logdet", ["solve:C"]),
  ("TriangularLinearOperator", "_solve", ["solve:U"]),
  ("TriangularLinearOperator", "_cholesky_solve", ["_cholesky_solve:C", "solve:C"]),
  ("TriangularLinearOperator", "solve_triangular", ["solve:U"]),
  ("ZeroLinearOperator", "solve", []),
  ("ZeroLinearOperator", "inv_quad", []),
  ("ZeroLinearOperator", "inv_quad_logdet", [])]

end LinOp.C19
