import LinOp.C19.Model
/-!
C19 — operator ⋆ operator shortcuts that work on the INTERNAL tensors of two structured operands
(`BlockDiag @ BlockDiag`, `Diag @ Diag`, `ConstantDiag ± ConstantDiag`), and the square-requirement guards.
Shapes of the internals: BlockDiag base `B ++ [nb, k, k]` (operator `B ++ [nb·k, nb·k]`), Diag `_diag` `A ++ [n]`,
ConstantDiag `diag_values` `A ++ [1]` with `diag_shape = n`.  No Mathlib.
-/
namespace LinOp.C19
namespace Impl
open Spec

/-- shape of `BlockDiagLinearOperator(base)` for a base of shape `B ++ [nb, k, k']` (block dimension = -3). -/
def blockDiagShape (base : List Nat) : Option (List Nat) :=
  match base.reverse with
  | k' :: k :: nb :: Brev => some (Brev.reverse ++ [nb * k, nb * k'])
  | _ => none

/-- what `BlockDiagLinearOperator(self.base_linear_op @ other.base_linear_op)` is: the operator-operator product of the two
bases (base guard on the base shapes, block dimension = a batch dimension there), wrapped again. -/
def blockDiagOfBaseProduct (ba bb : List Nat) : Except Err (List Nat) :=
  match matmulBroadcastShape ba bb with
  | .error e => .error e
  | .ok r => match blockDiagShape r with
    | some s => .ok s
    | none => .error .shape

/-- `BlockDiagLinearOperator.matmul(other : BlockDiagLinearOperator)` as it is (since 53611b1): `_matmul_broadcast_shape` on the
operator shapes FIRST; then the block-wise shortcut iff the two base shapes are EQUAL
(`self.base_linear_op.shape == other.base_linear_op.shape`), every other pair becomes a MatmulLinearOperator of the guard's shape. -/
def blockDiagPairMatmul (ba bb : List Nat) : Except Err (List Nat) :=
  match blockDiagShape ba, blockDiagShape bb with
  | some a, some b =>
    match matmulBroadcastShape a b with
    | .error e => .error e
    | .ok g => if ba = bb then blockDiagOfBaseProduct ba bb else .ok g
  | _, _ => .error .index

/-- the PREVIOUS code (before 53611b1): the shortcut was tried before any guard; only pairs that did not take it met the base
guard.  Kept as a statement about the previous code and as the reference for the weakened-condition counterexample. -/
def blockDiagPairMatmulUnguarded (ba bb : List Nat) : Except Err (List Nat) :=
  match blockDiagShape ba, blockDiagShape bb with
  | some a, some b => if ba = bb then blockDiagOfBaseProduct ba bb else matmulBroadcastShape a b
  | _, _ => .error .index

/-- the previous (unguarded) structure with the condition weakened to "same block size" (`shape[-2:]` of the bases equal): what a
change that only compares the blocks would have run before 53611b1.  Kept for the counterexample. -/
def blockDiagPairMatmulLoose (ba bb : List Nat) : Except Err (List Nat) :=
  match blockDiagShape ba, blockDiagShape bb with
  | some a, some b =>
    if ba.drop (ba.length - 2) = bb.drop (bb.length - 2) then blockDiagOfBaseProduct ba bb else matmulBroadcastShape a b
  | _, _ => .error .index

/-- `DiagLinearOperator.matmul(other : DiagLinearOperator)` as it is: the guard on the operator shapes, then
`DiagLinearOperator(self._diag * other._diag)` (torch broadcasting of the two diagonals). -/
def diagPairMatmul (A : List Nat) (n : Nat) (B : List Nat) (m : Nat) : Except Err (List Nat) :=
  match matmulBroadcastShape (A ++ [n, n]) (B ++ [m, m]) with
  | .error e => .error e
  | .ok _ => match broadcastShapes? (A ++ [n]) (B ++ [m]) with
    | none => .error .shape
    | some d => .ok (d ++ [d.getLastD 0])

/-- the elementwise product of the diagonals alone (shortcut before the guard): broadcasts a length-1 diagonal. -/
def diagPairMatmulUnguarded (A : List Nat) (n : Nat) (B : List Nat) (m : Nat) : Except Err (List Nat) :=
  match broadcastShapes? (A ++ [n]) (B ++ [m]) with
  | none => .error .shape
  | some d => .ok (d ++ [d.getLastD 0])

/-- `ConstantDiagLinearOperator.__add__(other : ConstantDiagLinearOperator)` as it is: the matrix sizes must be equal
(`other.shape[-1] == self.shape[-1]`, else RuntimeError); then `ConstantDiag(self.diag_values + other.diag_values, diag_shape)`:
the `(*batch, 1)` constants broadcast. -/
def constantDiagPairAdd (A : List Nat) (n : Nat) (B : List Nat) (m : Nat) : Except Err (List Nat) :=
  if n ≠ m then .error .shape else
  match broadcastShapes? (A ++ [1]) (B ++ [1]) with
  | none => .error .shape
  | some d => .ok (d.dropLast ++ [n, n])

/-- the same without the size comparison: the constants are added whatever the two `diag_shape`s are. -/
def constantDiagPairAddUnchecked (A : List Nat) (n : Nat) (B : List Nat) (_m : Nat) : Except Err (List Nat) :=
  match broadcastShapes? (A ++ [1]) (B ++ [1]) with
  | none => .error .shape
  | some d => .ok (d.dropLast ++ [n, n])

/-- A square-requirement guard: `if not self.is_square: raise RuntimeError` at the top of a method (`guarded`), for an
operator of matrix shape `m × n`. -/
def squareGuard (guarded : Bool) (a : List Nat) : Except Err Unit :=
  match split2 a with
  | none => .error .index
  | some (_, m, n) => if guarded && decide (m ≠ n) then .error .notSquare else .ok ()

/-- class-level verdict from the generated table: `table` maps (defining class, method) to "has the `is_square` guard";
`mro` is the class's method resolution order.  The first class of the MRO that defines the method decides. -/
def squareGuardOf (table : List ((String × String) × Bool)) (mro : List String) (method : String) (a : List Nat) : Except Err Unit :=
  match mro.findSome? (fun c => table.lookup (c, method)) with
  | none => .error .value            -- nobody defines the method
  | some g => squareGuard g a

end Impl
end LinOp.C19
