import LinOp.C19.Model
/-! Helper lemmas for C19 (core Lean only). -/
namespace LinOp.C19
open Spec

theorem split2_append (A : List Nat) (m n : Nat) : split2 (A ++ [m, n]) = some (A, m, n) := by
  simp [split2]

theorem split2_single (p : Nat) : split2 [p] = none := by simp [split2]

/-- every shape is `[]`, `[p]` or `B ++ [k, p]`. -/
theorem shape_cases (b : List Nat) : b = [] ∨ (∃ p, b = [p]) ∨ (∃ B k p, b = B ++ [k, p]) := by
  have h : b = b.reverse.reverse := by simp
  cases hb : b.reverse with
  | nil => left; rw [h, hb]; rfl
  | cons p r =>
    cases r with
    | nil => right; left; exact ⟨p, by rw [h, hb]; rfl⟩
    | cons k r => right; right; exact ⟨r.reverse, k, p, by rw [h, hb]; simp⟩

theorem bcastRev_nil_right (a : List Nat) : bcastRev a [] = some a := by
  cases a <;> simp [bcastRev]

theorem bcastRev_nil_left (a : List Nat) : bcastRev [] a = some a := by
  cases a <;> simp [bcastRev]

theorem broadcast_nil_right (A : List Nat) : broadcastShapes? A [] = some A := by
  simp [broadcastShapes?, bcastRev_nil_right]

theorem broadcast_nil_left (A : List Nat) : broadcastShapes? [] A = some A := by
  simp [broadcastShapes?, bcastRev_nil_left]

theorem bcastRev_comm : ∀ a b : List Nat, bcastRev a b = bcastRev b a
  | [], b => by rw [bcastRev_nil_left, bcastRev_nil_right]
  | a :: as, [] => by rw [bcastRev_nil_left, bcastRev_nil_right]
  | x :: a, y :: b => by
    simp only [bcastRev]
    rw [bcastRev_comm a b]
    by_cases hxy : x = y
    · subst hxy; simp
    · by_cases hx : x = 1
      · by_cases hy : y = 1
        · omega
        · simp [hx, hy]
      · by_cases hy : y = 1
        · simp [hx, hy]
        · have h1 : ¬ (x = y ∨ x = 1 ∨ y = 1) := by omega
          have h2 : ¬ (y = x ∨ y = 1 ∨ x = 1) := by omega
          simp [h1, h2]

theorem broadcast_comm (a b : List Nat) : broadcastShapes? a b = broadcastShapes? b a := by
  simp [broadcastShapes?, bcastRev_comm a.reverse b.reverse]

theorem bcastRev_self : ∀ a : List Nat, bcastRev a a = some a
  | [] => by simp [bcastRev]
  | x :: a => by simp [bcastRev, bcastRev_self a]

theorem broadcast_self (a : List Nat) : broadcastShapes? a a = some a := by
  simp [broadcastShapes?, bcastRev_self]

/-- broadcasting two shapes that end in the same matrix row count and `1` / `p` columns. -/
theorem broadcast_append_col (A B : List Nat) (n p : Nat) :
    broadcastShapes? (A ++ [n, 1]) (B ++ [n, p]) = (broadcastShapes? A B).map (· ++ [n, p]) := by
  simp only [broadcastShapes?, List.reverse_append, List.reverse_cons, List.reverse_nil, List.nil_append,
    List.cons_append, bcastRev]
  cases bcastRev A.reverse B.reverse <;> simp

theorem broadcast_append_vec (A : List Nat) (n : Nat) :
    broadcastShapes? (A ++ [n]) [n] = some (A ++ [n]) := by
  simp [broadcastShapes?, bcastRev, bcastRev_nil_right]

theorem take_append_two (B : List Nat) (k p : Nat) :
    (B ++ [k, p]).take ((B ++ [k, p]).length - 2) = B := by
  simp

theorem drop_append_two (B : List Nat) (k p : Nat) :
    (B ++ [k, p]).drop ((B ++ [k, p]).length - 2) = [k, p] := by
  simp


/-- torch.matmul of two operands of rank ≥ 2. -/
theorem torch_mm_mat (A B : List Nat) (m k k' p : Nat) :
    torchMatmulShape? (A ++ [m, k]) (B ++ [k', p]) =
      if k = k' then (broadcastShapes? A B).map (· ++ [m, p]) else none := by
  have e1 : ¬ (A.length + 2 = 0 ∨ B.length + 2 = 0) := by omega
  have e2 : ¬ (A.length + 2 = 1) := by omega
  have e3 : ¬ (B.length + 2 = 1) := by omega
  simp only [torchMatmulShape?, List.length_append, List.length_cons, List.length_nil, Nat.zero_add,
    e1, e2, e3, if_false, split2_append]
  by_cases h : k = k'
  · simp [h]
  · simp [h]

/-- torch.matmul of a rank ≥ 2 operand with a vector. -/
theorem torch_mm_vec (A : List Nat) (m k p : Nat) :
    torchMatmulShape? (A ++ [m, k]) [p] = if k = p then some (A ++ [m]) else none := by
  have e1 : ¬ (A.length + 2 = 0 ∨ 1 = 0) := by omega
  have e2 : ¬ (A.length + 2 = 1) := by omega
  have hs : split2 [p, 1] = some ([], p, 1) := split2_append [] p 1
  simp only [torchMatmulShape?, List.length_append, List.length_cons, List.length_nil, Nat.zero_add,
    e1, e2, if_false, if_true, split2_append, List.cons_append, List.nil_append, hs, broadcast_nil_right]
  by_cases h : k = p
  · simp [h]
  · simp [h]

theorem torch_mm_scalar (a : List Nat) : torchMatmulShape? a [] = none := by
  simp [torchMatmulShape?]

open Impl in
/-- the batch check of the fixed `expand` = torch's expand rule (with `-1`), all ranks. -/
theorem expandBatchOkRev_iff_torch : ∀ (o : List Nat) (t : List Int),
    expandBatchOkRev o t = true ↔ (torchExpandRev o t).isSome = true
  | [], [] => by simp [expandBatchOkRev, torchExpandRev]
  | [], t :: ts => by
    have ih := expandBatchOkRev_iff_torch [] ts
    simp only [expandBatchOkRev, List.all_cons, Bool.and_eq_true, decide_eq_true_eq] at ih ⊢
    simp only [torchExpandRev]
    by_cases h : t < 0
    · simp [h]; omega
    · simp only [h, if_false, Option.isSome_map]
      rw [← ih]
      constructor
      · intro ⟨_, h2⟩; exact h2
      · intro h2; exact ⟨by omega, h2⟩
  | _ :: _, [] => by simp [expandBatchOkRev, torchExpandRev]
  | o :: os, t :: ts => by
    have ih := expandBatchOkRev_iff_torch os ts
    simp only [expandBatchOkRev, torchExpandRev, Bool.and_eq_true, Bool.or_eq_true, decide_eq_true_eq]
    by_cases h1 : t = -1
    · simp [h1, ih]
    · by_cases h2 : t < 0
      · simp [h1, h2]; omega
      · simp only [h1, h2, if_false, false_or]
        by_cases h3 : (o : Int) = t ∨ o = 1
        · simp only [h3, if_true, Option.isSome_map]
          rw [← ih]
          constructor
          · intro ⟨_, h⟩; exact h
          · intro h; refine ⟨⟨by omega, ?_⟩, h⟩
            rcases h3 with h3 | h3
            · left; omega
            · right; exact h3
        · simp only [h3, if_false]
          constructor
          · intro ⟨⟨_, h⟩, _⟩
            exfalso; apply h3
            rcases h with h | h
            · left; omega
            · right; exact h
          · intro h; simp at h

open Impl in
/-- torch `expand` validity = "broadcasting the source into the target leaves the target unchanged". -/
theorem expandOkRev_iff_bcast : ∀ (s t : List Nat), expandOkRev s t = true ↔ bcastRev t s = some t
  | [], t => by simp [expandOkRev, bcastRev_nil_right]
  | x :: s, [] => by simp [expandOkRev, bcastRev]
  | x :: s, y :: t => by
    have ih := expandOkRev_iff_bcast s t
    simp only [expandOkRev, Bool.and_eq_true, Bool.or_eq_true, decide_eq_true_eq, bcastRev]
    by_cases hc : y = x ∨ y = 1 ∨ x = 1
    · simp only [hc, if_true]
      cases hb : bcastRev t s with
      | none =>
        simp only [hb] at ih
        simp [ih]
      | some r =>
        simp only [hb] at ih
        simp only [Option.map_some, Option.some.injEq, List.cons.injEq]
        constructor
        · intro ⟨h1, h2⟩
          have hr : r = t := by simpa using ih.mp h2
          refine ⟨?_, hr⟩
          by_cases hy : y = 1
          · simp only [hy, if_true]; rcases h1 with h | h <;> omega
          · simp [hy]
        · intro ⟨h1, h2⟩
          refine ⟨?_, ih.mpr (by simp [h2])⟩
          by_cases hy : y = 1
          · simp only [hy, if_true] at h1; left; omega
          · rcases hc with h | h | h
            · left; omega
            · exact absurd h hy
            · right; exact h
    · simp only [hc, if_false]
      constructor
      · intro ⟨h1, _⟩; exfalso; apply hc; rcases h1 with h | h
        · left; omega
        · right; right; exact h
      · intro h; cases h

theorem expandOk_iff_broadcast (s t : List Nat) : expandOk s t = true ↔ broadcastShapes? t s = some t := by
  simp only [expandOk, broadcastShapes?, expandOkRev_iff_bcast]
  constructor
  · intro h; simp [h]
  · intro h
    cases hb : bcastRev t.reverse s.reverse with
    | none => simp [hb] at h
    | some r =>
      simp only [hb, Option.map_some, Option.some.injEq] at h
      have : r = t.reverse := by rw [← h]; simp
      rw [this]
theorem shape_cases1 (d : List Nat) : d = [] ∨ ∃ D k, d = D ++ [k] := by
  rcases shape_cases d with rfl | ⟨p, rfl⟩ | ⟨B, k, p, rfl⟩
  · left; rfl
  · right; exact ⟨[], p, rfl⟩
  · right; exact ⟨B ++ [k], p, by simp⟩

open Impl in
theorem expandOk_append_one (D A : List Nat) (k x : Nat) :
    expandOk (D ++ [k]) (A ++ [x]) = ((decide (k = x) || decide (k = 1)) && expandOk D A) := by
  simp [expandOk, expandOkRev]


theorem eq_of_dimAt (s b : List Nat) (hl : s.length = b.length) (h : ∀ i, i < s.length → dimAt s i = dimAt b i) : s = b := by
  apply List.ext_getElem hl
  intro i h1 h2
  have := h i h1
  simpa [dimAt, List.getD_eq_getElem?_getD, h1, h2] using this

theorem bcastRev_rel : ∀ (a b s : List Nat), bcastRev a b = some s ↔ BroadcastRel a b s
  | [], b, s => by
    rw [bcastRev_nil_left]
    constructor
    · intro h; cases h
      refine ⟨by simp, fun i hi => ?_⟩
      simp [dimAt]
    · intro ⟨hl, h⟩
      have : s = b := eq_of_dimAt s b (by simpa using hl) (fun i hi => by have := (h i hi).2; simpa [dimAt] using this)
      rw [this]
  | x :: a, [], s => by
    rw [bcastRev_nil_right]
    constructor
    · intro h; cases h
      refine ⟨by simp, fun i hi => ?_⟩
      by_cases hx : dimAt (x :: a) i = 1 <;> simp [dimAt] at *
    · intro ⟨hl, h⟩
      have : s = x :: a := eq_of_dimAt s (x :: a) (by simpa using hl) (fun i hi => by
        have := (h i hi).2
        by_cases hx : dimAt (x :: a) i = 1
        · simp only [hx, if_true] at this; simp [dimAt] at this ⊢; simp [dimAt] at hx; omega
        · simpa [hx] using this)
      rw [this]
  | x :: a, y :: b, s => by
    have ih := bcastRev_rel a b
    simp only [bcastRev]
    constructor
    · intro h
      by_cases hc : x = y ∨ x = 1 ∨ y = 1
      · simp only [hc, if_true] at h
        cases hr : bcastRev a b with
        | none => simp [hr] at h
        | some r =>
          simp only [hr, Option.map_some, Option.some.injEq] at h
          subst h
          obtain ⟨hl, hr'⟩ := (ih r).mp hr
          refine ⟨by simp [hl], fun i hi => ?_⟩
          cases i with
          | zero => simpa [dimAt] using hc
          | succ j =>
            have := hr' j (by simpa using hi)
            simpa [dimAt] using this
      · simp [hc] at h
    · intro ⟨hl, h⟩
      have h0 := h 0 (by rw [hl]; simp)
      simp only [dimAt, List.getD_cons_zero] at h0
      cases s with
      | nil => simp at hl
      | cons z r =>
        simp only [List.getD_cons_zero] at h0
        have hrel : BroadcastRel a b r := by
          refine ⟨by simp at hl; omega, fun i hi => ?_⟩
          have := h (i + 1) (by simpa using hi)
          simpa [dimAt] using this
        have hr := (ih r).mpr hrel
        simp only [h0.1, if_true, hr, Option.map_some, Option.some.injEq, List.cons.injEq, and_true]
        exact h0.2.symm

end LinOp.C19
