import LinOp.C19.ExtModel
import LinOp.C19.Proofs
/-! Helper lemmas and proofs for the session-5 extension of C19 (add_diagonal overrides, rmatmul, Cat constructor). -/
namespace LinOp.C19.Ext
open LinOp.C19 Spec Impl

theorem diagOpShape_append (A : List Nat) (n : Nat) : diagOpShape (A ++ [n]) = A ++ [n, n] := by
  simp [diagOpShape]

/-- broadcasting two non-empty shapes: last dimensions by the size rule, the rest recursively. -/
theorem broadcast_append_last (A D : List Nat) (n k : Nat) :
    broadcastShapes? (A ++ [n]) (D ++ [k]) =
      if n = k ∨ n = 1 ∨ k = 1 then (broadcastShapes? A D).map (· ++ [if n = 1 then k else n]) else none := by
  simp only [broadcastShapes?, List.reverse_append, List.reverse_cons, List.reverse_nil, List.nil_append,
    List.cons_append, bcastRev]
  split
  · cases bcastRev A.reverse D.reverse <;> simp
  · simp

theorem addDiagonalShape_append (A D : List Nat) (n k : Nat) :
    addDiagonalShape? (A ++ [n, n]) (D ++ [k]) =
      if k = n ∨ k = 1 then (broadcastShapes? A D).map (· ++ [n, n]) else none := by
  simp [addDiagonalShape?, split2_append]

theorem addDiagonalShape_nil (A : List Nat) (n : Nat) :
    addDiagonalShape? (A ++ [n, n]) [] = some (A ++ [n, n]) := by
  simp [addDiagonalShape?, split2_append]

theorem diagAddDiagonal_iff_torch (A : List Nat) (n : Nat) (hn : n ≠ 1) (d s : List Nat) :
    diagAddDiagonal A n d = .ok s ↔ addDiagonalShape? (A ++ [n, n]) d = some s := by
  rcases shape_cases1 d with rfl | ⟨D, k, rfl⟩
  · simp [diagAddDiagonal, broadcast_nil_right, addDiagonalShape_nil, diagOpShape_append]
  · rw [addDiagonalShape_append]
    simp only [diagAddDiagonal, broadcast_append_last, hn, if_false, false_or]
    by_cases h1 : k = n
    · subst h1
      cases h : broadcastShapes? A D with
      | none => simp
      | some r => simp [diagOpShape_append]
    · have h1' : ¬ n = k := fun h => h1 h.symm
      by_cases h2 : k = 1
      · subst h2
        cases h : broadcastShapes? A D with
        | none => simp
        | some r => simp [diagOpShape_append]
      · simp [h1, h1', h2]

theorem kronAddDiagonal_iff_torch (A : List Nat) (n : Nat) (hn : n ≠ 1) (d s : List Nat) :
    kronAddDiagonal (A ++ [n, n]) d = .ok s ↔ addDiagonalShape? (A ++ [n, n]) d = some s := by
  rcases shape_cases1 d with rfl | ⟨D, k, rfl⟩
  · simp [kronAddDiagonal, split2_append, addDiagonalShape_nil]
  · rw [addDiagonalShape_append]
    simp only [kronAddDiagonal, split2_append, ne_eq, not_true_eq_false, if_false, List.reverse_append,
      List.reverse_cons, List.reverse_nil, List.nil_append, List.cons_append, List.reverse_reverse]
    by_cases h2 : k = 1
    · subst h2
      cases h : broadcastShapes? A D with
      | none => simp
      | some r => simp
    · have := diagAddDiagonal_iff_torch A n hn (D ++ [k]) s
      rw [addDiagonalShape_append] at this
      simp only [diagAddDiagonal] at this
      simp only [h2, if_false, or_false] at this ⊢
      exact this

theorem lowRankRootAddDiagonal_sound (A : List Nat) (n : Nat) (d s : List Nat)
    (h : lowRankRootAddDiagonal (A ++ [n, n]) d = .ok s) : addDiagonalShape? (A ++ [n, n]) d = some s := by
  rcases shape_cases1 d with rfl | ⟨D, k, rfl⟩
  · simp [lowRankRootAddDiagonal, split2_append] at h
    subst h
    exact addDiagonalShape_nil A n
  · rw [addDiagonalShape_append]
    simp only [lowRankRootAddDiagonal, split2_append, ne_eq, not_true_eq_false, if_false, List.reverse_append,
      List.reverse_cons, List.reverse_nil, List.nil_append, List.cons_append, List.reverse_reverse] at h
    by_cases h2 : k = 1
    · subst h2
      cases hb : broadcastShapes? A D with
      | none => simp [hb] at h
      | some r => simp [hb] at h; simp [h]
    · simp only [h2, if_false, expandOk_append_one] at h
      by_cases hk : k = n
      · subst hk
        by_cases he : expandOk D A = true
        · simp [he] at h
          have := (expandOk_iff_broadcast D A).1 he
          simp [this, h]
        · simp [he] at h
      · simp [hk] at h

/-- the constant branches of LowRankRoot / Kronecker accept a diagonal that ADDS batch dimensions (as torch does);
the non-constant branch of LowRankRoot does not (base `expand`). -/
theorem lowRankRootAddDiagonal_examples :
    lowRankRootAddDiagonal [2, 3, 3] [3, 2, 1] = .ok [3, 2, 3, 3] ∧
    lowRankRootAddDiagonal [2, 3, 3] [3, 2, 3] = .error .shape ∧
    addDiagonalShape? [2, 3, 3] [3, 2, 3] = some [3, 2, 3, 3] := by decide

theorem expandOkRev_length : ∀ s t : List Nat, expandOkRev s t = true → s.length ≤ t.length
  | [], _, _ => by simp
  | _ :: _, [], h => by simp [expandOkRev] at h
  | x :: s, y :: t, h => by
    simp only [expandOkRev, Bool.and_eq_true] at h
    have := expandOkRev_length s t h.2
    simp only [List.length_cons]; omega

theorem expandOk_length (s t : List Nat) (h : expandOk s t = true) : s.length ≤ t.length := by
  have := expandOkRev_length _ _ h
  simpa using this

theorem expandOk_long (d t : List Nat) (hl : t.length < d.length) : expandOk d t = false := by
  cases h : expandOk d t with
  | false => rfl
  | true => have := expandOk_length d t h; omega

theorem addDiagonalGuard_long (A : List Nat) (n : Nat) (d : List Nat) (h : A.length + 1 < d.length) :
    addDiagonalGuard (A ++ [n, n]) d = .error .shape := by
  rcases shape_cases1 d with rfl | ⟨D, k, rfl⟩
  · simp at h
  · have h1 := expandOk_long (D ++ [k]) (A ++ [n]) (by simp at h ⊢; omega)
    have h2 := expandOk_long (D ++ [k]) (A ++ [1]) (by simp at h ⊢; omega)
    simp only [addDiagonalGuard, split2_append, ne_eq, not_true_eq_false, if_false, List.reverse_append,
      List.reverse_cons, List.reverse_nil, List.nil_append, List.cons_append, h1, h2]
    split <;> simp

theorem zeroAddDiagonal_long (A : List Nat) (hA : A.length ≤ 1) (n : Nat) (d : List Nat) (h : A.length + 1 < d.length) :
    zeroAddDiagonal (A ++ [n, n]) d = .error .shape := by
  match A, hA with
  | [], _ =>
    have h0 : ¬ d.length = 0 := by simp at h; omega
    have h1 : ¬ d.length = 1 := by simp at h; omega
    simp [zeroAddDiagonal, split2, h0, h1]
  | [b], _ =>
    have h0 : ¬ d.length = 0 := by simp at h; omega
    have h1 : ¬ d.length = 1 := by simp at h; omega
    have h2 : ¬ d.length = 2 := by simp at h; omega
    simp [zeroAddDiagonal, split2, h0, h1, h2]

/-- Zero `add_diagonal` = the base-class guard for operators with at most one batch dimension. -/
theorem zeroAddDiagonal_eq_base (A : List Nat) (hA : A.length ≤ 1) (n : Nat) (d : List Nat) :
    zeroAddDiagonal (A ++ [n, n]) d = addDiagonalGuard (A ++ [n, n]) d := by
  by_cases hlong : A.length + 1 < d.length
  · rw [zeroAddDiagonal_long A hA n d hlong, addDiagonalGuard_long A n d hlong]
  · match A, hA with
    | [], _ =>
      match d with
      | [] => simp [zeroAddDiagonal, addDiagonalGuard, split2, expandOk, expandOkRev, diagOpShape]
      | [k] =>
        by_cases hkn : k = n
        · subst hkn
          by_cases hk : k = 1 <;>
            simp [zeroAddDiagonal, addDiagonalGuard, split2, expandOk, expandOkRev, diagOpShape, hk]
        · by_cases hk : k = 1 <;>
            simp [zeroAddDiagonal, addDiagonalGuard, split2, expandOk, expandOkRev, diagOpShape, hk, hkn]
      | x :: y :: r => simp at hlong
    | [b], _ =>
      match d with
      | [] => simp [zeroAddDiagonal, addDiagonalGuard, split2, expandOk, expandOkRev, diagOpShape]
      | [k] =>
        by_cases hkn : k = n
        · subst hkn
          by_cases hk : k = 1 <;>
            simp [zeroAddDiagonal, addDiagonalGuard, split2, expandOk, expandOkRev, diagOpShape, hk]
        · by_cases hk : k = 1 <;>
            simp [zeroAddDiagonal, addDiagonalGuard, split2, expandOk, expandOkRev, diagOpShape, hk, hkn]
      | [j, k] =>
        by_cases hkn : k = n
        · subst hkn
          by_cases hk : k = 1 <;>
            simp [zeroAddDiagonal, addDiagonalGuard, split2, expandOk, expandOkRev, diagOpShape, hk]
        · by_cases hk : k = 1 <;>
            simp [zeroAddDiagonal, addDiagonalGuard, split2, expandOk, expandOkRev, diagOpShape, hk, hkn]
      | x :: y :: z :: r => simp at hlong

theorem mulGuard_iff' (a b s : List Nat) : mulGuard a b = .ok s ↔ broadcastShapes? a b = some s := by
  simp only [mulGuard]
  cases broadcastShapes? a b <;> simp

theorem swapLast2_append (A : List Nat) (m n : Nat) : swapLast2 (A ++ [m, n]) = A ++ [n, m] := by
  simp [swapLast2, split2_append]

/-- torch.matmul of a vector with a rank ≥ 2 operand. -/
theorem torch_mm_lvec (A : List Nat) (p m n : Nat) :
    torchMatmulShape? [p] (A ++ [m, n]) = if p = m then some (A ++ [n]) else none := by
  have e1 : ¬ (1 = 0 ∨ A.length + 2 = 0) := by omega
  have e3 : ¬ (A.length + 2 = 1) := by omega
  have hs : split2 [1, p] = some ([], 1, p) := split2_append [] 1 p
  simp only [torchMatmulShape?, List.length_append, List.length_cons, List.length_nil, Nat.zero_add,
    e1, e3, if_false, if_true, split2_append, hs, broadcast_nil_left]
  by_cases h : p = m
  · simp [h]
  · simp [h]

theorem rmatmulGuard_iff_torch (A : List Nat) (m n : Nat) (b s : List Nat) :
    rmatmulGuard (A ++ [m, n]) b = .ok s ↔ torchMatmulShape? b (A ++ [m, n]) = some s := by
  rcases shape_cases b with rfl | ⟨p, rfl⟩ | ⟨B, q, p, rfl⟩
  · simp [rmatmulGuard, torchMatmulShape?]
  · rw [torch_mm_lvec]
    by_cases h : m = p
    · subst h; simp [rmatmulGuard, swapLast2_append, matmulBroadcastShape, split2_append]
    · have h' : ¬ p = m := fun e => h e.symm
      simp [rmatmulGuard, swapLast2_append, matmulBroadcastShape, split2_append, h, h']
  · rw [torch_mm_mat]
    have hl : ¬ (B ++ [q, p]).length = 0 := by simp
    have hl1 : ¬ (B ++ [q, p]).length = 1 := by simp
    simp only [rmatmulGuard, hl, hl1, if_false, swapLast2_append, matmulBroadcastShape, split2_append,
      List.reverse_append, List.reverse_cons, List.reverse_nil, List.nil_append, List.cons_append,
      List.reverse_reverse]
    by_cases h : m = p
    · subst h
      rw [broadcast_comm B A]
      cases hb : broadcastShapes? A B with
      | none => simp
      | some r => simp [swapLast2_append]
    · have h' : ¬ p = m := fun e => h e.symm
      simp [h, h']

theorem addLowRank_iff_torch (a b s : List Nat) :
    addLowRank a b = .ok s ↔ addLowRankShape? a b = some s := by
  rcases shape_cases b with rfl | ⟨p, rfl⟩ | ⟨B, k, p, rfl⟩
  · simp [addLowRank, addLowRankShape?, split2]
  · simp [addLowRank, addLowRankShape?, split2_single]
  · have hl : ¬ (B ++ [k, p]).length < 2 := by simp
    simp only [addLowRank, addLowRankShape?, split2_append, hl, if_false, swapLast2_append, torch_mm_mat, if_true,
      broadcast_self, Option.map_some, Option.bind_some, mulGuard_iff']

/-- the constructor's shape is torch.cat's shape whenever `_check_args` ran and passed -/
theorem catCtor_debug_iff (s0 s1 : List Nat) (rest : List (List Nat)) (dim : Nat) (hd : dim < s0.length) (s : List Nat) :
    catCtor true (s0 :: s1 :: rest) dim = .ok s ↔ catShape? (s0 :: s1 :: rest) dim = some s := by
  have hd' : ¬ dim ≥ s0.length := by omega
  simp only [catCtor, catShape?, hd', if_false, catCheckArgs, if_true, catSize]
  by_cases hc : ((s1 :: rest).all (fun s => s.length = s0.length && s.eraseIdx dim = s0.eraseIdx dim)) = true
  · simp only [hc, if_true]; simp
  · simp only [hc]; simp

theorem catCtor_nodebug_counterexample :
    catCtor false [[3, 3], [2, 4]] 0 = .ok [5, 3] ∧ catShape? [[3, 3], [2, 4]] 0 = none := by decide


theorem eraseIdx_len (A : List Nat) (x y : Nat) : (A ++ [x, y]).eraseIdx A.length = A ++ [y] := by
  induction A with
  | nil => rfl
  | cons a A ih => simp [ih]

theorem eraseIdx_len1 (A : List Nat) (x y : Nat) : (A ++ [x, y]).eraseIdx (A.length + 1) = A ++ [x] := by
  induction A with
  | nil => rfl
  | cons a A ih => simp [ih]

theorem set_len (A : List Nat) (x y v : Nat) : (A ++ [x, y]).set A.length v = A ++ [v, y] := by
  induction A with
  | nil => rfl
  | cons a A ih => simp [ih]

theorem set_len1 (A : List Nat) (x y v : Nat) : (A ++ [x, y]).set (A.length + 1) v = A ++ [x, v] := by
  induction A with
  | nil => rfl
  | cons a A ih => simp [ih]

theorem getD_len (A : List Nat) (x y : Nat) : (A ++ [x, y]).getD A.length 0 = x := by
  induction A with
  | nil => rfl
  | cons a A ih => simp [ih]

theorem getD_len1 (A : List Nat) (x y : Nat) : (A ++ [x, y]).getD (A.length + 1) 0 = y := by
  induction A with
  | nil => rfl
  | cons a A ih => simp [ih]

/-- Cat of two operands of equal rank along the row dimension -/
theorem catCtor_rows (A C : List Nat) (m n o n' : Nat) (hl : C.length = A.length) :
    catCtor true [A ++ [m, n], C ++ [o, n']] A.length =
      if C = A ∧ n' = n then .ok (A ++ [m + o, n]) else .error .shape := by
  have h1 : ¬ A.length ≥ (A ++ [m, n]).length := by simp
  have e2 : (C ++ [o, n']).eraseIdx A.length = C ++ [n'] := by rw [← hl]; exact eraseIdx_len C o n'
  have g2 : (C ++ [o, n']).getD A.length 0 = o := by rw [← hl]; exact getD_len C o n'
  simp only [catCtor, h1, if_false, if_true, catCheckArgs, List.all_cons, List.all_nil, Bool.and_true,
    eraseIdx_len, e2, catSize, List.foldl_cons, List.foldl_nil, getD_len, g2, set_len, Nat.zero_add]
  by_cases hc : C = A ∧ n' = n
  · obtain ⟨rfl, rfl⟩ := hc; simp
  · have : ¬ (C ++ [n'] = A ++ [n]) := by
      intro h
      have := List.append_inj h (by simpa using hl)
      exact hc ⟨this.1, by simpa using this.2⟩
    simp [hc, this]


/-- Cat of two operands of equal rank along the column dimension -/
theorem catCtor_cols (A C : List Nat) (m n m' p : Nat) (hl : C.length = A.length) :
    catCtor true [A ++ [m, n], C ++ [m', p]] (A.length + 1) =
      if C = A ∧ m' = m then .ok (A ++ [m, n + p]) else .error .shape := by
  have h1 : ¬ A.length + 1 ≥ (A ++ [m, n]).length := by simp
  have e2 : (C ++ [m', p]).eraseIdx (A.length + 1) = C ++ [m'] := by rw [← hl]; exact eraseIdx_len1 C m' p
  have g2 : (C ++ [m', p]).getD (A.length + 1) 0 = p := by rw [← hl]; exact getD_len1 C m' p
  simp only [catCtor, h1, if_false, if_true, catCheckArgs, List.all_cons, List.all_nil, Bool.and_true,
    eraseIdx_len1, e2, catSize, List.foldl_cons, List.foldl_nil, getD_len1, g2, set_len1, Nat.zero_add]
  by_cases hc : C = A ∧ m' = m
  · obtain ⟨rfl, rfl⟩ := hc; simp
  · have : ¬ (C ++ [m'] = A ++ [m]) := by
      intro h
      have := List.append_inj h (by simpa using hl)
      exact hc ⟨this.1, by simpa using this.2⟩
    simp [hc, this]

/-- `cat_rows` on a SQUARE operator, cross / new matrices of the operator's rank: accepts exactly the dense block matrix
`[[A, Bᵀ], [B, D]]` that torch accepts, with its shape. -/
theorem catRowsUnguarded_square_same_rank_iff (A C W : List Nat) (n o n' o1 o2 : Nat) (hC : C.length = A.length)
    (hW : W.length = A.length) (s : List Nat) :
    catRowsUnguarded (A ++ [n, n]) (C ++ [o, n']) (W ++ [o1, o2]) = .ok s ↔
      catRowsShape? (A ++ [n, n]) (C ++ [o, n']) (W ++ [o1, o2]) = some s := by
  have hlt : ¬ (A ++ [n, n]).length < (C ++ [o, n']).length := by simp [hC]
  have hr2 : (A ++ [n, n]).length - 2 = A.length := by simp
  have hr1 : (A ++ [n, n]).length - 1 = A.length + 1 := by simp
  have hWC : W.length = C.length := by omega
  simp only [catRowsUnguarded, catRowsShape?, split2_append, hlt, if_false, hr2, hr1, swapLast2_append, catCtor_rows A C n n o n' hC]
  by_cases h1 : C = A ∧ n' = n
  · obtain ⟨rfl, rfl⟩ := h1
    have hlo := catCtor_rows C W n' o o1 o2 hWC
    rw [hC] at hlo
    simp only [and_self, if_true, hlo]
    by_cases h2 : W = C ∧ o2 = o
    · obtain ⟨rfl, rfl⟩ := h2
      simp only [and_self, if_true, catCtor_cols W W (n' + o2) n' (n' + o1) o2 rfl]
      by_cases h3 : o1 = o2
      · subst h3; simp
      · have : ¬ (n' + o1 = n' + o2) := by omega
        simp [h3, this]
    · have h2' : ¬ (n' = n' ∧ o1 = o ∧ o2 = o ∧ n' = n' ∧ C = C ∧ C = W) := fun h => h2 ⟨h.2.2.2.2.2.symm, h.2.2.1⟩
      simp [h2]
      intro _ hb hc
      exact absurd ⟨hc.symm, hb⟩ h2
  · have h1' : ¬ (n = n' ∧ o1 = o ∧ o2 = o ∧ n = n ∧ A = C ∧ C = W) := fun h => h1 ⟨h.2.2.2.2.1.symm, h.1.symm⟩
    simp [h1]
    intro hn _ _ hA
    exact absurd ⟨hA.symm, hn.symm⟩ h1

/-- a rectangular operator with a compensating `new_mat` passes all three constructor checks (the result is not a block matrix) -/
theorem catRows_rect_counterexample :
    catRowsUnguarded [4, 3] [2, 3] [3, 2] = .ok [6, 5] ∧ catRowsShape? [4, 3] [2, 3] [3, 2] = none ∧
    catRows [4, 3] [2, 3] [3, 2] = .error .notSquare := by decide

/-- guarded `cat_rows`, any (also rectangular) operator, cross / new matrices of the operator's rank -/
theorem catRows_same_rank_iff (A C W : List Nat) (m n o n' o1 o2 : Nat) (hC : C.length = A.length)
    (hW : W.length = A.length) (s : List Nat) :
    catRows (A ++ [m, n]) (C ++ [o, n']) (W ++ [o1, o2]) = .ok s ↔
      catRowsShape? (A ++ [m, n]) (C ++ [o, n']) (W ++ [o1, o2]) = some s := by
  by_cases h : m = n
  · subst h
    simp only [catRows, split2_append, ne_eq, not_true_eq_false, if_false]
    exact catRowsUnguarded_square_same_rank_iff A C W m o n' o1 o2 hC hW s
  · have hlt : ¬ (A ++ [m, n]).length < (C ++ [o, n']).length := by simp [hC]
    simp only [catRows, catRowsShape?, split2_append, ne_eq, h, not_false_eq_true, if_true, hlt, if_false]
    simp [h]

theorem nonEllipsis_count : ∀ idx : List Idx, nonEllipsis idx + idx.count .ellipsis = idx.length
  | [] => by simp [nonEllipsis]
  | x :: r => by
    have ih := nonEllipsis_count r
    cases x <;> simp [nonEllipsis, List.count_cons] <;> omega

theorem tooManyIndices_iff_torch (ndim : Nat) (idx : List Idx) (h : idx.count .ellipsis ≤ 1) :
    indexCountGuard ndim idx = .error .index ↔ tooManyIndices ndim idx = true := by
  have hf := nonEllipsis_count idx
  simp only [indexCountGuard, expandedIndexLen, tooManyIndices, decide_eq_true_eq]
  by_cases h1 : idx.count .ellipsis = 1
  · simp only [h1, if_true]
    split <;> simp <;> omega
  · have h0 : idx.count .ellipsis = 0 := by omega
    simp only [h0]
    split <;> simp <;> omega

end LinOp.C19.Ext
