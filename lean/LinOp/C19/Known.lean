/-!
C19 — the overrides of guarded public methods that exist in the library at the pinned commit, with their
"reaches the base guard" flag.  Hand-maintained baseline (NOT generated): the table regenerated from the
source on every run (LinOp/Generated/C19Guards.lean) must equal it (`overrides_are_the_known_ones`).
Each unguarded entry is either harmless (delegates to a guarded method / torch's own check) or a listed
finding; see notes/C19.md.
-/
namespace LinOp.C19

def knownOverrides : List (String × String × Bool) := [
  ("AddedDiagLinearOperator", "__add__", false),
  ("AddedDiagLinearOperator", "add_diagonal", false),
  ("BatchRepeatLinearOperator", "inv_quad_logdet", true),
  ("BatchRepeatLinearOperator", "add_jitter", false),
  ("BatchRepeatLinearOperator", "_get_indices:fmod", true),
  ("BlockDiagLinearOperator", "matmul", true),
  ("BlockDiagLinearOperator", "inv_quad_logdet", false),
  ("BlockDiagLinearOperator", "_get_indices:fmod", true),
  ("BlockInterleavedLinearOperator", "inv_quad_logdet", false),
  ("BlockInterleavedLinearOperator", "_get_indices:fmod", true),
  ("CatLinearOperator", "inv_quad_logdet", true),
  ("CatLinearOperator", "_get_indices:fmod", false),
  ("CholLinearOperator", "solve", false),
  ("CholLinearOperator", "inv_quad", false),
  ("CholLinearOperator", "inv_quad_logdet", false),
  ("CholLinearOperator", "_get_indices:fmod", false),
  ("ConstantDiagLinearOperator", "matmul", true),
  ("ConstantDiagLinearOperator", "__add__", true),
  ("ConstantMulLinearOperator", "_get_indices:fmod", false),
  ("DenseLinearOperator", "__add__", true),
  ("DenseLinearOperator", "_get_indices:fmod", false),
  ("DiagLinearOperator", "matmul", true),
  ("DiagLinearOperator", "solve", false),
  ("DiagLinearOperator", "inv_quad_logdet", false),
  ("DiagLinearOperator", "__add__", false),
  ("DiagLinearOperator", "add_diagonal", false),
  ("DiagLinearOperator", "_get_indices:fmod", false),
  ("IdentityLinearOperator", "matmul", false),
  ("IdentityLinearOperator", "solve", false),
  ("IdentityLinearOperator", "inv_quad_logdet", false),
  ("InterpolatedLinearOperator", "matmul", false),
  ("InterpolatedLinearOperator", "_get_indices:fmod", false),
  ("KeOpsLinearOperator", "_get_indices:fmod", false),
  ("KernelLinearOperator", "_get_indices:fmod", false),
  ("KroneckerProductAddedDiagLinearOperator", "inv_quad_logdet", true),
  ("KroneckerProductAddedDiagLinearOperator", "__add__", true),
  ("KroneckerProductLinearOperator", "inv_quad_logdet", true),
  ("KroneckerProductLinearOperator", "__add__", true),
  ("KroneckerProductLinearOperator", "add_diagonal", false),
  ("KroneckerProductLinearOperator", "_get_indices:fmod", true),
  ("KroneckerProductTriangularLinearOperator", "solve", false),
  ("LowRankRootAddedDiagLinearOperator", "solve", false),
  ("LowRankRootAddedDiagLinearOperator", "inv_quad_logdet", false),
  ("LowRankRootAddedDiagLinearOperator", "__add__", false),
  ("LowRankRootLinearOperator", "__add__", true),
  ("LowRankRootLinearOperator", "add_diagonal", false),
  ("MaskedLinearOperator", "_get_indices:fmod", false),
  ("MatmulLinearOperator", "_get_indices:fmod", false),
  ("MulLinearOperator", "_get_indices:fmod", false),
  ("RootLinearOperator", "_get_indices:fmod", false),
  ("SumBatchLinearOperator", "_get_indices:fmod", false),
  ("SumKroneckerLinearOperator", "inv_quad_logdet", false),
  ("SumLinearOperator", "__add__", false),
  ("SumLinearOperator", "_get_indices:fmod", false),
  ("ToeplitzLinearOperator", "add_jitter", false),
  ("ToeplitzLinearOperator", "_get_indices:fmod", true),
  ("TransposePermutationLinearOperator", "_get_indices:fmod", true),
  ("TriangularLinearOperator", "solve", false),
  ("TriangularLinearOperator", "inv_quad_logdet", false),
  ("TriangularLinearOperator", "__add__", false),
  ("TriangularLinearOperator", "add_diagonal", false),
  ("TriangularLinearOperator", "_get_indices:fmod", false),
  ("ZeroLinearOperator", "matmul", false),
  ("ZeroLinearOperator", "solve", false),
  ("ZeroLinearOperator", "inv_quad", false),
  ("ZeroLinearOperator", "inv_quad_logdet", false),
  ("ZeroLinearOperator", "__add__", false),
  ("ZeroLinearOperator", "mul", false),
  ("ZeroLinearOperator", "add_diagonal", false),
  ("ZeroLinearOperator", "_get_indices:fmod", false)]

/-- Entries whose flag becomes `true` once the proposed guard patches land (notes/C19_fix_1..4.diff:
Diag / Identity `inv_quad_logdet`, Zero `matmul`, KroneckerProductTriangular / LowRankRootAddedDiag `solve`
call `_matmul_broadcast_shape`).  Accepted next to the baseline so that the obligation holds on the
unpatched and on the patched tree; a guard that *disappears* is still a mismatch. -/
def fixedOverrides : List (String × String × Bool) := [
  ("DiagLinearOperator", "inv_quad_logdet", true),
  ("IdentityLinearOperator", "inv_quad_logdet", true),
  ("KroneckerProductTriangularLinearOperator", "solve", true),
  ("LowRankRootAddedDiagLinearOperator", "solve", true),
  ("ZeroLinearOperator", "matmul", true)]

/-- same (class, method) keys in the same order, and every entry is the baseline one or a listed fixed one -/
def overridesOk (t : List (String × String × Bool)) : Bool :=
  t.map (fun o => (o.1, o.2.1)) == knownOverrides.map (fun o => (o.1, o.2.1)) &&
  t.all (fun o => knownOverrides.contains o || fixedOverrides.contains o)

end LinOp.C19
