import LinOp.C19.Model
/-!
C19 extension (session 5) — guards that were "implementation side only" so far, as executable functions on shapes:

* the per-class `add_diagonal` overrides: Diag / ConstantDiag / Identity (`broadcast_shapes(_diag.shape, diag.shape)`),
  AddedDiag (delegates to its `_diag_tensor`), Triangular (delegates to its `_tensor`), KroneckerProduct
  (`diag.expand(broadcast_shapes(shape[:-1], diag.shape))`, constant branches unchecked until the
  KroneckerProductAddedDiag constructor broadcasts), LowRankRoot (base `expand` in the non-constant branch, constant branches
  as Kronecker), Zero (rank-2 / rank-3 special cases, then `res.size() != self.size()`);
* `rmatmul` (`self.mT.matmul(other.mT).mT`, 1-D operands `self.mT.matmul(other)`);
* the CatLinearOperator constructor (shape = first operand's shape with the cat size replaced by the sum) and
  `cat_rows` (two row concatenations, then one column concatenation; optional batch expand of `self`);
* `add_low_rank` (`self + B @ B.mT`).
No Mathlib.
-/
namespace LinOp.C19

namespace Impl
open Spec

/-- shape of `DiagLinearOperator(t)` for a `_diag` tensor of shape `s`: `s ++ [last s]`. -/
def diagOpShape (s : List Nat) : List Nat :=
  match s.reverse with
  | [] => []
  | k :: _ => s ++ [k]

/-- Diag / ConstantDiag / Identity `add_diagonal` (also AddedDiag, which forwards to its diagonal part):
`shape = torch.broadcast_shapes(self._diag.shape, diag.shape)`; result `DiagLinearOperator` of that shape.
`A ++ [n]` is the shape of `_diag`. -/
def diagAddDiagonal (A : List Nat) (n : Nat) (d : List Nat) : Except Err (List Nat) :=
  match broadcastShapes? (A ++ [n]) d with
  | none => .error .shape
  | some s => .ok (diagOpShape s)

/-- KroneckerProduct `add_diagonal`: `is_square`; 0-d and trailing-1 diagonals become a ConstantDiag without any check
(the KroneckerProductAddedDiag constructor then broadcasts the batch shapes); otherwise
`diag.expand(torch.broadcast_shapes(self.shape[:-1], diag.shape))`. -/
def kronAddDiagonal (a d : List Nat) : Except Err (List Nat) :=
  match split2 a with
  | none => .error .index
  | some (A, m, n) =>
    if m ≠ n then .error .notSquare else
    match d.reverse with
    | [] => .ok a
    | k :: Drev =>
      if k = 1 then
        (match broadcastShapes? A Drev.reverse with
         | none => .error .shape
         | some bc => .ok (bc ++ [m, n]))
      else
        (match broadcastShapes? (A ++ [m]) d with
         | none => .error .shape
         | some s => .ok (diagOpShape s))

/-- LowRankRoot `add_diagonal`: constant branches as Kronecker; otherwise the base class's `diag.expand(self.shape[:-1])`. -/
def lowRankRootAddDiagonal (a d : List Nat) : Except Err (List Nat) :=
  match split2 a with
  | none => .error .index
  | some (A, m, n) =>
    if m ≠ n then .error .notSquare else
    match d.reverse with
    | [] => .ok a
    | k :: Drev =>
      if k = 1 then
        (match broadcastShapes? A Drev.reverse with
         | none => .error .shape
         | some bc => .ok (bc ++ [m, n]))
      else (if expandOk d (A ++ [m]) then .ok a else .error .shape)

/-- Zero `add_diagonal`: `ndimension() == 3` → diag of rank 0 / 1 / 2 expanded to `(size(0), size(1))`; otherwise diag of
rank 0 / 1 expanded to `(size(0),)`; then `DiagLinearOperator(diag).size() != self.size()` raises. -/
def zeroAddDiagonal (a d : List Nat) : Except Err (List Nat) :=
  match split2 a with
  | none => .error .index
  | some (_, m, n) =>
    if m ≠ n then .error .notSquare else
    let tgt : List Nat := if a.length = 3 then a.take 2 else a.take 1
    let src : Option (List Nat) :=
      if a.length = 3 then
        (if d.length = 0 then some [1, 1] else if d.length = 1 then some (1 :: d)
         else if d.length = 2 then some d else none)
      else (if d.length = 0 then some [1] else if d.length = 1 then some d else none)
    match src with
    | none => .error .shape
    | some s =>
      if expandOk s tgt then (if diagOpShape tgt = a then .ok a else .error .shape) else .error .shape

/-- which `add_diagonal` a class runs, keyed by the class that defines it in the MRO. -/
inductive AddDiagKind | base | diag | kron | lowRankRoot | zero
  deriving DecidableEq, Repr

def addDiagKindOf (definer : String) : Option AddDiagKind :=
  if definer = "LinearOperator" then some .base
  else if definer = "DiagLinearOperator" then some .diag
  else if definer = "AddedDiagLinearOperator" then some .diag          -- `self._diag_tensor.add_diagonal(diag)`
  else if definer = "TriangularLinearOperator" then some .base         -- `self._tensor.add_diagonal(diag)` (dense inner operator)
  else if definer = "KroneckerProductLinearOperator" then some .kron
  else if definer = "LowRankRootLinearOperator" then some .lowRankRoot
  else if definer = "ZeroLinearOperator" then some .zero
  else none

def addDiagVerdict (k : AddDiagKind) (a d : List Nat) : Except Err (List Nat) :=
  match k, split2 a with
  | .base, _ => addDiagonalGuard a d
  | .kron, _ => kronAddDiagonal a d
  | .lowRankRoot, _ => lowRankRootAddDiagonal a d
  | .zero, _ => zeroAddDiagonal a d
  | .diag, some (A, m, n) => if m ≠ n then .error .notSquare else diagAddDiagonal A n d
  | .diag, none => .error .index

/-- `shape[:-2] ++ [shape[-1], shape[-2]]` (`.mT`); shapes of rank < 2 are returned unchanged (torch raises there). -/
def swapLast2 (l : List Nat) : List Nat :=
  match split2 l with
  | some (A, m, n) => A ++ [n, m]
  | none => l

/-- base `rmatmul(other)`: `other.ndim == 1` → `self.mT.matmul(other)`; else `self.mT.matmul(other.mT).mT`
(`.mT` of a 0-d tensor raises).  Every `matmul` involved runs `_matmul_broadcast_shape` first. -/
def rmatmulGuard (a b : List Nat) : Except Err (List Nat) :=
  if b.length = 0 then .error .index
  else if b.length = 1 then matmulBroadcastShape (swapLast2 a) b
  else match matmulBroadcastShape (swapLast2 a) (swapLast2 b) with
    | .error e => .error e
    | .ok s => .ok (swapLast2 s)

/-- sum of the sizes along `dim` -/
def catSize (shapes : List (List Nat)) (dim : Nat) : Nat :=
  shapes.foldl (fun acc s => acc + s.getD dim 0) 0

/-- CatLinearOperator `__init__`: `_shape = rep.shape[:dim] + (sum of cat sizes,) + rep.shape[dim+1:]`;
`_check_args` only runs under `settings.debug`. -/
def catCtor (debug : Bool) (shapes : List (List Nat)) (dim : Nat) : Except Err (List Nat) :=
  match shapes with
  | [] => .error .index
  | s0 :: _ =>
    if dim ≥ s0.length then .error .index else
    match (if debug then catCheckArgs shapes dim else .ok ()) with
    | .error e => .error e
    | .ok _ => .ok (s0.set dim (catSize shapes dim))

/-- `cat_rows` as it was BEFORE 6da5c17 (no `is_square` guard), kept for the regression counterexample:
`cat_rows(cross_mat, new_mat)` with `generate_roots=False` under `settings.debug`: `to_linear_operator` needs ≥ 2-d
tensors; `self` is expanded to the broadcast batch if `cross_mat` has more dimensions; then
`Cat(A, B, dim=-2)`, `Cat(B.mT, D, dim=-2)`, `Cat(upper, lower, dim=-1)`. -/
def catRowsUnguarded (a c nw : List Nat) : Except Err (List Nat) :=
  match split2 a, split2 c, split2 nw with
  | some (A, m, n), some (C, _, _), some _ =>
    let a' : Option (List Nat) :=
      if a.length < c.length then (broadcastShapes? A C).map (· ++ [m, n]) else some a
    match a' with
    | none => .error .shape
    | some a' =>
      let r := a'.length
      match catCtor true [a', c] (r - 2) with
      | .error e => .error e
      | .ok up =>
        match catCtor true [swapLast2 c, nw] (r - 2) with
        | .error e => .error e
        | .ok lo => catCtor true [up, lo] (r - 1)
  | none, _, _ => .error .index
  | _, _, _ => .error .value

/-- `cat_rows` as it is (6da5c17): `if not self.is_square: raise` first, then the three concatenations. -/
def catRows (a c nw : List Nat) : Except Err (List Nat) :=
  match split2 a with
  | none => .error .index
  | some (_, m, n) => if m ≠ n then .error .notSquare else catRowsUnguarded a c nw

/-- index kinds of a `__getitem__` tuple (None-free) -/
inductive Idx | int | slice | tensor | ellipsis
  deriving DecidableEq, Repr

/-- length of the index tuple after the ellipsis expansion and the padding with `_noop_index` in `__getitem__`
(`range(k)` of a negative `k` is empty, hence the truncated subtractions). -/
def expandedIndexLen (ndim : Nat) (idx : List Idx) : Nat :=
  let l := if idx.count .ellipsis = 1 then (idx.length - 1) + (ndim - (idx.length - 1)) else idx.length
  l + (ndim - l)

/-- `__getitem__` (716435a): `if len(index) > ndimension: raise IndexError("too many indices …")`. -/
def indexCountGuard (ndim : Nat) (idx : List Idx) : Except Err Unit :=
  if expandedIndexLen ndim idx > ndim then .error .index else .ok ()

/-- the same tuple handling without the guard (before 716435a): `zip(index, shape)` silently dropped the surplus -/
def indexCountUnguarded (_ndim : Nat) (_idx : List Idx) : Except Err Unit := .ok ()

/-- base `add_low_rank(B)` (`generate_roots=False`): `B.mT` needs ≥ 2 dims, `B @ B.mT` is `Bb ++ [k, k]`, then `self + …`
(`broadcast_shapes`, which also lets a 1×1 product broadcast against the matrix dimensions). -/
def addLowRank (a b : List Nat) : Except Err (List Nat) :=
  match split2 b with
  | none => .error .index
  | some (B, k, _) => mulGuard a (B ++ [k, k])

end Impl

namespace Spec

/-- torch: "too many indices for tensor of dimension n" — every non-ellipsis entry of a None-free index tuple consumes one
dimension (ints, slices and integer tensors alike). -/
def nonEllipsis : List Impl.Idx → Nat
  | [] => 0
  | .ellipsis :: r => nonEllipsis r
  | _ :: r => nonEllipsis r + 1

def tooManyIndices (ndim : Nat) (idx : List Impl.Idx) : Bool := decide (nonEllipsis idx > ndim)

/-- torch `B @ A` for `rmatmul` -/
def rmatmulShape? (a b : List Nat) : Option (List Nat) := torchMatmulShape? b a

/-- dense `A + B @ B.mT`: `B.mT` needs a matrix, the product is `Bb ++ [k, k]`, the sum broadcasts. -/
def addLowRankShape? (a b : List Nat) : Option (List Nat) :=
  if b.length < 2 then none else (torchMatmulShape? b (Impl.swapLast2 b)).bind (broadcastShapes? a)

/-- dense `[[A, Bᵀ], [B, D]]`: `A : … m×n`, `B : … o×n`, `D : … o×o`, `m = n` (the block matrix is `(m+o)×(n+o)` and the
upper-right block is `Bᵀ : n×o`, so it needs `m = n`), equal batch shapes after expanding `A`. -/
def catRowsShape? (a c nw : List Nat) : Option (List Nat) :=
  match split2 a, split2 c, split2 nw with
  | some (A, m, n), some (C, o, n'), some (W, o1, o2) =>
    let A' := if a.length < c.length then broadcastShapes? A C else some A
    match A' with
    | none => none
    | some A' =>
      if n = n' ∧ o1 = o ∧ o2 = o ∧ m = n ∧ A' = C ∧ C = W then some (A' ++ [m + o, n + o]) else none
  | _, _, _ => none

end Spec
end LinOp.C19
