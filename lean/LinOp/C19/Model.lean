/-!
C19 — shape guards and index-range guards of linear_operator, as executable functions on shapes.

`Spec.*`  : what torch accepts for the densified operator (torch.matmul / broadcasting / expand /
            cat / integer indexing), written after torch's documentation.
`Impl.*`  : the guards the library actually runs, mirrored from the source:
            utils/broadcasting.py `_matmul_broadcast_shape`; operators/_linear_operator.py `matmul`,
            `solve`, `inv_quad`, `inv_quad_logdet`, `mul`, `__add__`, `add_diagonal`, `expand`;
            the bypassing overrides Diag/ConstantDiag `matmul` (elementwise broadcast),
            Identity `matmul`/`solve` (`_maybe_reshape_rhs`), Zero `matmul`; Cat `_check_args`;
            utils/getitem.py `_compute_getitem_size` (debug range check), the int → `slice(i, i+1)`
            rewrite of `__getitem__`, and the modular `_get_indices` of Toeplitz / Kronecker / BatchRepeat.
No Mathlib.  Shapes are `List Nat` (outermost dimension first, as in torch).
-/
namespace LinOp.C19

inductive Err | shape | index | notSquare | value
  deriving DecidableEq, Repr

deriving instance DecidableEq for Except

/-- `(A, m, n)` with `l = A ++ [m, n]` (python `l[:-2], l[-2], l[-1]`). -/
def split2 (l : List Nat) : Option (List Nat × Nat × Nat) :=
  match l.reverse with
  | n :: m :: r => some (r.reverse, m, n)
  | _ => none

namespace Spec

/-- numpy/torch broadcasting on *reversed* shapes (innermost dimension first). -/
def bcastRev : List Nat → List Nat → Option (List Nat)
  | [], b => some b
  | a, [] => some a
  | x :: a, y :: b =>
    if x = y ∨ x = 1 ∨ y = 1 then (bcastRev a b).map ((if x = 1 then y else x) :: ·) else none

/-- `torch.broadcast_shapes(a, b)`; `none` = RuntimeError. -/
def broadcastShapes? (a b : List Nat) : Option (List Nat) :=
  (bcastRev a.reverse b.reverse).map List.reverse

/-- size of dimension `i` counted from the innermost one; missing (leading) dimensions count as 1 -/
def dimAt (l : List Nat) (i : Nat) : Nat := l.getD i 1

/-- numpy/torch broadcasting rule as a *relation* on reversed shapes (independent of the recursive `bcastRev`):
the result has the longer rank; at every position the sizes agree or one of them is 1, and the result takes the non-1 size. -/
def BroadcastRel (a b s : List Nat) : Prop :=
  s.length = max a.length b.length ∧
  ∀ i, i < s.length → (dimAt a i = dimAt b i ∨ dimAt a i = 1 ∨ dimAt b i = 1) ∧
    dimAt s i = if dimAt a i = 1 then dimAt b i else dimAt a i

/-- Shape of `torch.matmul(a, b)` after the documentation of torch.matmul: 0-d operands are
rejected; a 1-d first operand gets a leading 1 (removed afterwards), a 1-d second operand a trailing
1 (removed afterwards); inner dimensions must agree; batch dimensions broadcast. -/
def torchMatmulShape? (a b : List Nat) : Option (List Nat) :=
  if a.length = 0 ∨ b.length = 0 then none else
  let a' := if a.length = 1 then 1 :: a else a
  let b' := if b.length = 1 then b ++ [1] else b
  match split2 a', split2 b' with
  | some (A, m, k), some (B, k', p) =>
    if k ≠ k' then none else
    (broadcastShapes? A B).map fun bc =>
      bc ++ (if a.length = 1 then [] else [m]) ++ (if b.length = 1 then [] else [p])
  | _, _ => none

/-- `A⁻¹ R`: defined iff `A` is square and `A @ R` is. -/
def solveShape? (a b : List Nat) : Option (List Nat) :=
  match split2 a with
  | some (_, m, n) => if m = n then torchMatmulShape? a b else none
  | none => none

/-- `L (A⁻¹ R)`: the solve must be defined, then the product with the left tensor. -/
def solveLeftShape? (a b l : List Nat) : Option (List Nat) :=
  (solveShape? a b).bind (torchMatmulShape? l)

/-- torch `x.expand(tgt)` for non-negative targets, on reversed shapes. -/
def expandOkRev : List Nat → List Nat → Bool
  | [], _ => true
  | _ :: _, [] => false
  | x :: s, t :: ts => (x = t || x = 1) && expandOkRev s ts

def expandOk (src tgt : List Nat) : Bool := expandOkRev src.reverse tgt.reverse

/-- torch `x.expand(*sizes)` with `-1` = keep (only for existing dims), reversed lists. -/
def torchExpandRev : List Nat → List Int → Option (List Nat)
  | [], [] => some []
  | [], t :: ts => if t < 0 then none else (torchExpandRev [] ts).map (t.toNat :: ·)
  | _ :: _, [] => none
  | x :: s, t :: ts =>
    if t = -1 then (torchExpandRev s ts).map (x :: ·)
    else if t < 0 then none
    else if (x : Int) = t ∨ x = 1 then (torchExpandRev s ts).map (t.toNat :: ·) else none

def torchExpand? (src : List Nat) (sizes : List Int) : Option (List Nat) :=
  (torchExpandRev src.reverse sizes.reverse).map List.reverse

/-- `dense + diag_embed(d)`: the last dim of `d` is `n` or 1 (or `d` is 0-d); batches broadcast. -/
def addDiagonalShape? (a d : List Nat) : Option (List Nat) :=
  match split2 a with
  | some (A, m, n) =>
    if m ≠ n then none else
    match d.reverse with
    | [] => some a
    | k :: Drev => if k = n ∨ k = 1 then (broadcastShapes? A Drev.reverse).map (· ++ [n, n]) else none
  | none => none

/-- torch integer index `x[i]` along a dimension of the given size. -/
def indexValid (size : Nat) (i : Int) : Bool := decide (-(size : Int) ≤ i) && decide (i < size)

/-- `torch.cat(shapes, dim)` (all ranks ≥ 1 as for operators): same rank, equal outside `dim`. -/
def catShape? (shapes : List (List Nat)) (dim : Nat) : Option (List Nat) :=
  match shapes with
  | [] => none
  | s0 :: rest =>
    if dim ≥ s0.length then none else
    if rest.all (fun s => s.length = s0.length && s.eraseIdx dim = s0.eraseIdx dim) then
      some (s0.set dim ((s0 :: rest).foldl (fun acc s => acc + s.getD dim 0) 0))
    else none

end Spec

namespace Impl
open Spec

/-- utils/broadcasting.py `_matmul_broadcast_shape(shape_a, shape_b)`. -/
def matmulBroadcastShape (a b : List Nat) : Except Err (List Nat) :=
  match split2 a with
  | none => .error .index                         -- shape_a[-2]
  | some (A, m, n) =>
    match b.reverse with
    | [] => .error .index                          -- shape_b[-1] on an empty Size
    | [p] => if n ≠ p then .error .shape else .ok (A ++ [m])          -- shape_a[:-1]
    | p :: k :: Brev =>
      if n ≠ k then .error .shape else
      match broadcastShapes? A Brev.reverse with
      | none => .error .shape
      | some bc => .ok (bc ++ [m, p])

/-- the elementwise shortcut inside Diag/ConstantDiag(/KroneckerProductDiag) `matmul(Tensor)`:
`diag (or diag.unsqueeze(-1)) * other`; `A ++ [n]` is the shape of `_diag`.  On its own it broadcasts. -/
def diagMatmul (A : List Nat) (n : Nat) (b : List Nat) : Except Err (List Nat) :=
  let d := if b.length = 1 then A ++ [n] else A ++ [n, 1]
  match broadcastShapes? d b with
  | none => .error .shape
  | some s => .ok s

/-- the body of Identity `_maybe_reshape_rhs` after its guard: the matrix size `n` is not consulted. -/
def identityMatmul (A : List Nat) (_n : Nat) (b : List Nat) : Except Err (List Nat) :=
  let isVec := b.length = 1
  let b1 := if isVec then b ++ [1] else b
  let Bb := b1.take (b1.length - 2)
  let tail := b1.drop (b1.length - 2)
  let r := if A ≠ Bb then (broadcastShapes? Bb A).map (· ++ tail) else some b1
  match r with
  | none => .error .shape
  | some s => .ok (if isVec then s.dropLast else s)

/-- Zero `matmul` as it was before the fix (inner-dimension check, then the *other* operand's batch shape);
kept only for the regression counterexample. -/
def zeroMatmul (a b : List Nat) : Except Err (List Nat) :=
  match split2 a with
  | none => .error .index
  | some (_, m, n) =>
    match b.reverse with
    | [] => .error .index
    | [k] => if n ≠ k then .error .shape else .ok [m]
    | p :: k :: Brev => if n ≠ k then .error .shape else .ok (Brev.reverse ++ [m, p])

/-- base `inv_quad`: `is_square`, then `_matmul_broadcast_shape`. -/
def invQuadGuard (a b : List Nat) : Except Err (List Nat) :=
  match split2 a with
  | none => .error .index
  | some (_, m, n) => if m ≠ n then .error .notSquare else matmulBroadcastShape a b

/-- base `inv_quad_logdet` (CG path): square; 2-D × 1-D numel; same rank; same batch; inner dim. -/
def iqlGuard (a b : List Nat) : Except Err Unit :=
  match split2 a with
  | none => .error .index
  | some (A, m, n) =>
    if m ≠ n then .error .notSquare else
    if a.length = 2 ∧ b.length = 1 then (if n ≠ b.foldl (· * ·) 1 then .error .shape else .ok ())
    else if a.length ≠ b.length then .error .shape
    else match split2 b with
      | none => .error .shape
      | some (B, k, _) => if A ≠ B ∨ n ≠ k then .error .shape else .ok ()

/-- base `mul` (tensor / operator operand): `torch.broadcast_shapes(self.shape, other.shape)`. -/
def mulGuard (a b : List Nat) : Except Err (List Nat) :=
  match broadcastShapes? a b with
  | none => .error .shape
  | some s => .ok s

/-- base `__add__(Tensor)`: `to_linear_operator` needs ≥ 2 dims, then `broadcast_shapes`. -/
def addTensorGuard (a b : List Nat) : Except Err (List Nat) :=
  if b.length < 2 then .error .value else mulGuard a b

/-- base `add_diagonal`: square; `diag.expand(shape[:-1])` or, for a trailing 1 / 0-d, `expand(*batch, 1)`. -/
def addDiagonalGuard (a d : List Nat) : Except Err (List Nat) :=
  match split2 a with
  | none => .error .index
  | some (A, m, n) =>
    if m ≠ n then .error .notSquare else
    match d.reverse with
    | [] => .ok a
    | k :: _ =>
      if k ≠ 1 then (if expandOk d (A ++ [m]) then .ok a else .error .shape)
      else (if expandOk d (A ++ [1]) then .ok a else .error .shape)

/-- first half of base `expand(*sizes)`: the last two sizes must be the matrix shape or `(-1, -1)`.
Returns the batch part. -/
def expandMatrixGuard (a : List Nat) (sizes : List Int) : Except Err (List Int) :=
  match split2 a, sizes.reverse with
  | some (_, m, n), c :: r :: Brev =>
    if (r = m ∧ c = n) ∨ (r = -1 ∧ c = -1) then .ok Brev.reverse else .error .shape
  | _, _ => .error .shape

/-- base `solve` (also LowRankRootAddedDiag / KroneckerProductTriangular `solve`): `is_square`, then the full
`_matmul_broadcast_shape` guard (the same code as `inv_quad`'s guard). -/
def solveGuard (a b : List Nat) : Except Err (List Nat) := invQuadGuard a b

/-- `solve(right_tensor, left_tensor)` of the base class, Diag, Identity, LowRankRootAddedDiag, KroneckerProductTriangular:
the right-hand side goes through the guard first; only then `left_tensor @ result` (torch's own check). -/
def solveLeft (a b l : List Nat) : Except Err (List Nat) :=
  match solveGuard a b with
  | .error e => .error e
  | .ok s => match Spec.torchMatmulShape? l s with
    | none => .error .shape
    | some r => .ok r

/-- what a `solve` that multiplies `left_tensor @ right_tensor` without consulting the operator would accept -/
def solveLeftUnguarded (_a b l : List Nat) : Except Err (List Nat) :=
  match Spec.torchMatmulShape? l b with
  | none => .error .shape
  | some r => .ok r

/-- second half of base `expand`: the batch-target check, on reversed lists
(old batch shape, requested batch sizes). -/
def expandBatchOkRev : List Nat → List Int → Bool
  | [], ts => ts.all (fun t => decide (0 ≤ t))
  | _ :: _, [] => false
  | o :: os, t :: ts =>
    (decide (t = -1) || (decide (0 ≤ t) && (decide (t = (o : Int)) || decide (o = 1)))) && expandBatchOkRev os ts

/-- base `expand`: matrix sizes, then batch sizes; the accepted batch part goes to `_expand_batch`. -/
def expandGuard (a : List Nat) (sizes : List Int) : Except Err (List Int) :=
  match split2 a, expandMatrixGuard a sizes with
  | some (A, _, _), .ok batch => if expandBatchOkRev A.reverse batch.reverse then .ok batch else .error .shape
  | _, .error e => .error e
  | none, _ => .error .index

/-- Dense `expand`: base guard, then `tensor.expand(*batch, *matrix_shape)` (torch's own check). -/
def denseExpand (a : List Nat) (sizes : List Int) : Except Err (List Nat) :=
  match split2 a, expandGuard a sizes with
  | some (_, m, n), .ok batch =>
    (match torchExpand? a (batch ++ [(m : Int), (n : Int)]) with
     | some s => .ok s
     | none => .error .shape)
  | _, .error e => .error e
  | none, _ => .error .index

/-- Cat `_check_args` (debug only): ≥ 2 operators, same rank, equal with the cat dim deleted. -/
def catCheckArgs (shapes : List (List Nat)) (dim : Nat) : Except Err Unit :=
  match shapes with
  | [] => .error .shape
  | [_] => .error .shape
  | s0 :: rest =>
    if rest.all (fun s => s.length = s0.length && s.eraseIdx dim = s0.eraseIdx dim) then .ok () else .error .shape

/-- `_compute_getitem_size` int branch under `settings.debug`: `range(size)[idx]`. -/
def rangeCheck (size : Nat) (i : Int) : Except Err Nat :=
  if 0 ≤ i then (if i < size then .ok i.toNat else .error .index)
  else (if 0 ≤ (size : Int) + i then .ok ((size : Int) + i).toNat else .error .index)

/-- python `slice(i, i+1).indices(size)` → (start, stop). -/
def sliceBound (size : Nat) (j : Int) : Int :=
  if j < 0 then max (j + size) 0 else min j size

/-- `__getitem__` rewrites an int `i` in a matrix position to `slice(i, i+1)` and squeezes later:
number of rows that slice selects. -/
def intAsSliceLen (size : Nat) (i : Int) : Nat :=
  (sliceBound size (i + 1) - sliceBound size i).toNat

/-- Toeplitz `_get_indices`: `(row - col).fmod(n).abs()` into the column (C `fmod` truncates). -/
def toeplitzIndex (n : Nat) (i j : Int) : Nat := ((i - j).tmod n).natAbs

/-- Kronecker / Block / BatchRepeat `_get_indices`: `idx.fmod(size)` of a (floor-divided) index. -/
def fmodIndex (size : Nat) (i : Int) : Int := i.tmod size

end Impl

namespace Impl
/-- Diag / ConstantDiag / KroneckerProductDiag `matmul(Tensor)` as it is: the guard, then `diag * other`. -/
def diagMatmulGuarded (A : List Nat) (n : Nat) (b : List Nat) : Except Err (List Nat) :=
  match matmulBroadcastShape (A ++ [n, n]) b with
  | .error e => .error e
  | .ok _ => diagMatmul A n b

/-- Identity `matmul` / `solve` as they are: `_maybe_reshape_rhs` runs the guard, then broadcasts the argument. -/
def identityMatmulGuarded (A : List Nat) (n : Nat) (b : List Nat) : Except Err (List Nat) :=
  match matmulBroadcastShape (A ++ [n, n]) b with
  | .error e => .error e
  | .ok _ => identityMatmul A n b

/-- `__getitem__`: every int index is range-checked (`-size ≤ i < size`) whatever `settings.debug` says. -/
def intIndexGuard (size : Nat) (i : Int) : Except Err Nat := rangeCheck size i

/-- `__getitem__`: every entry of a (non-bool) tensor index is range-checked (via `max` / `min`). -/
def tensorIndexGuard (size : Nat) (l : List Int) : Except Err Unit :=
  if l.all (fun i => Spec.indexValid size i) then .ok () else .error .index
end Impl

/-- Which shape logic a class's public `matmul` runs — keyed by the class that *defines* the method in the
MRO (extracted from the source by harness/extract/c19_guards.py). -/
inductive MatmulKind | base | diagEw | identity | zero
  deriving DecidableEq, Repr

def matmulKindOf (definer : String) : Option MatmulKind :=
  if definer = "LinearOperator" then some .base
  else if definer = "DiagLinearOperator" then some .diagEw
  else if definer = "ConstantDiagLinearOperator" then some .diagEw      -- falls to Diag.matmul for tensors
  else if definer = "IdentityLinearOperator" then some .identity
  else if definer = "ZeroLinearOperator" then some .zero               -- output shape = the guard's result
  else if definer = "BlockDiagLinearOperator" then some .base          -- `super().matmul` for tensors
  else if definer = "InterpolatedLinearOperator" then some .base       -- left_t_interp runs the guard on the inner product
  else none

/-- The model's verdict for `op.matmul(T)`: `a = A ++ [m, n]`. -/
def matmulVerdict (k : MatmulKind) (a b : List Nat) : Except Err (List Nat) :=
  match k, split2 a with
  | .base, _ => Impl.matmulBroadcastShape a b
  | .zero, _ => Impl.matmulBroadcastShape a b
  | .diagEw, some (A, _, n) => Impl.diagMatmulGuarded A n b
  | .identity, some (A, _, n) => Impl.identityMatmulGuarded A n b
  | _, none => .error .index

end LinOp.C19
