import LinOp.Core.Parse
import LinOp.C19.Model
import LinOp.C19.PairModel
import LinOp.C19.ExtModel
import LinOp.Generated.C19Guards
/-! Line-protocol driver for the C19 shape-guard model.
`<fn> <shapeA> <shapeB>` → `ok <shape>` | `ok` | `err <kind>`; shapes are comma lists, `-` = (). -/
open LinOp LinOp.C19 LinOp.Parse

def showErr : Err → String
  | .shape => "shape" | .index => "index" | .notSquare => "notSquare" | .value => "value"

def showRes (r : Except Err (List Nat)) : String :=
  match r with
  | .ok s => "ok " ++ showList toString s
  | .error e => "err " ++ showErr e

def showUnit (r : Except Err Unit) : String :=
  match r with
  | .ok _ => "ok"
  | .error e => "err " ++ showErr e

def showOpt (r : Option (List Nat)) : String :=
  match r with
  | some s => "ok " ++ showList toString s
  | none => "err spec"

def kindOfStr (s : String) : Option MatmulKind :=
  if s = "base" then some .base else if s = "diagEw" then some .diagEw
  else if s = "identity" then some .identity else if s = "zero" then some .zero else none

def stepLine (_ : Unit) (line : String) : Unit × String :=
  let out :=
    match words line with
    | ["mm", k, a, b] =>
      match kindOfStr k, parseNats? a, parseNats? b with
      | some k, some a, some b => showRes (matmulVerdict k a b)
      | _, _, _ => "bad-op"
    | ["mmdef", d, a, b] =>
      match matmulKindOf d, parseNats? a, parseNats? b with
      | some k, some a, some b => showRes (matmulVerdict k a b)
      | none, _, _ => "unknown-definer"
      | _, _, _ => "bad-op"
    | [fn, a, b] =>
      if fn = "idxcount" || fn = "idxcountspec" then
        let kinds : Option (List Impl.Idx) := (b.splitOn ",").mapM fun k =>
          if k = "i" then some Impl.Idx.int else if k = "s" then some .slice else if k = "t" then some .tensor
          else if k = "e" then some .ellipsis else none
        match a.toNat?, kinds with
        | some n, some l =>
          if fn = "idxcount" then showUnit (Impl.indexCountGuard n l)
          else (if Spec.tooManyIndices n l then "err spec" else "ok")
        | _, _ => "bad-op"
      else if fn = "rangelist" then
        match a.toNat?, parseInts? b with
        | some n, some l => showUnit (Impl.tensorIndexGuard n l)
        | _, _ => "bad-op"
      else if fn = "expandguard" || fn = "denseexpand" || fn = "torchexpand" then
        match parseNats? a, parseInts? b with
        | some a, some s =>
          if fn = "expandguard" then
            (match Impl.expandGuard a s with | .ok l => "ok " ++ showList toString l | .error e => "err " ++ showErr e)
          else if fn = "denseexpand" then showRes (Impl.denseExpand a s)
          else showOpt (Spec.torchExpand? a s)
        | _, _ => "bad-op"
      else if fn = "range" || fn = "slicelen" || fn = "indexvalid" || fn = "fmod" then
        match a.toNat?, b.toInt? with
        | some n, some i =>
          if fn = "range" then (match Impl.intIndexGuard n i with | .ok k => s!"ok {k}" | .error _ => "err index")
          else if fn = "slicelen" then s!"ok {Impl.intAsSliceLen n i}"
          else if fn = "fmod" then s!"ok {Impl.fmodIndex n i}"
          else (if Spec.indexValid n i then "ok" else "err spec")
        | _, _ => "bad-op"
      else
      match parseNats? a, parseNats? b with
      | some a, some b =>
        if fn = "torchmm" then showOpt (Spec.torchMatmulShape? a b)
        else if fn = "bc" then showOpt (Spec.broadcastShapes? a b)
        else if fn = "solvespec" then showOpt (Spec.solveShape? a b)
        else if fn = "solve" then showRes (Impl.solveGuard a b)
        else if fn = "invquad" then showRes (Impl.invQuadGuard a b)
        else if fn = "iql" then showUnit (Impl.iqlGuard a b)
        else if fn = "mul" then showRes (Impl.mulGuard a b)
        else if fn = "addT" then showRes (Impl.addTensorGuard a b)
        else if fn = "adddiag" then showRes (Impl.addDiagonalGuard a b)
        else if fn = "adddiagspec" then showOpt (Spec.addDiagonalShape? a b)
        else if fn = "bdpair" then showRes (Impl.blockDiagPairMatmul a b)
        else if fn = "diagpair" || fn = "cdadd" then
          (match a.reverse, b.reverse with
           | n :: Ar, m :: Br =>
             if fn = "diagpair" then showRes (Impl.diagPairMatmul Ar.reverse n Br.reverse m)
             else showRes (Impl.constantDiagPairAdd Ar.reverse n Br.reverse m)
           | _, _ => "bad-op")
        else if fn = "rmm" then showRes (Impl.rmatmulGuard a b)
        else if fn = "rmmspec" then showOpt (Spec.rmatmulShape? a b)
        else if fn = "addlowrank" then showRes (Impl.addLowRank a b)
        else if fn = "square" then showUnit (Impl.squareGuard (a != [0]) b)
        else "bad-op"
      | _, _ => "bad-op"
    | ["adddiagdef", c, a, b] =>
      match Impl.addDiagKindOf c, parseNats? a, parseNats? b with
      | some k, some a, some b => showRes (Impl.addDiagVerdict k a b)
      | none, _, _ => "unknown-definer"
      | _, _, _ => "bad-op"
    | ["catrows", a, b, l] =>
      match parseNats? a, parseNats? b, parseNats? l with
      | some a, some b, some l => showRes (Impl.catRows a b l)
      | _, _, _ => "bad-op"
    | ["catrowsspec", a, b, l] =>
      match parseNats? a, parseNats? b, parseNats? l with
      | some a, some b, some l => showOpt (Spec.catRowsShape? a b l)
      | _, _, _ => "bad-op"
    | "catctor" :: dbg :: dim :: shapes =>
      match dim.toNat?, shapes.mapM parseNats? with
      | some d, some ss => showRes (Impl.catCtor (dbg = "1") ss d)
      | _, _ => "bad-op"
    | ["solveleft", a, b, l] =>
      match parseNats? a, parseNats? b, parseNats? l with
      | some a, some b, some l => showRes (Impl.solveLeft a b l)
      | _, _, _ => "bad-op"
    | ["squareof", c, m, a] =>
      match parseNats? a, LinOp.Generated.C19.mros.lookup c with
      | some a, some mro => showUnit (Impl.squareGuardOf LinOp.Generated.C19.squareGuards mro m a)
      | _, _ => "bad-op"
    | ["toeplitz", n, i, j] =>
      match n.toNat?, i.toInt?, j.toInt? with
      | some n, some i, some j => s!"ok {Impl.toeplitzIndex n i j}"
      | _, _, _ => "bad-op"
    | "cat" :: fn :: dim :: shapes =>
      match dim.toNat?, shapes.mapM parseNats? with
      | some d, some ss =>
        if fn = "spec" then showOpt (Spec.catShape? ss d) else showUnit (Impl.catCheckArgs ss d)
      | _, _ => "bad-op"
    | _ => "bad-op"
  ((), out)

def main : IO Unit := do
  loop (← IO.getStdin) () stepLine
