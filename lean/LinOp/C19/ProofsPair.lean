import LinOp.C19.Proofs
import LinOp.C19.PairModel
/-! Helper lemmas for the operator ⋆ operator shortcut models (LinOp/C19/PairModel.lean). -/
namespace LinOp.C19
open Spec Impl

/-- broadcasting two shapes that end in the same size: the common suffix is kept. -/
theorem broadcast_append_same (A B : List Nat) (x : Nat) :
    broadcastShapes? (A ++ [x]) (B ++ [x]) = (broadcastShapes? A B).map (· ++ [x]) := by
  simp only [broadcastShapes?, List.reverse_append, List.reverse_cons, List.reverse_nil, List.nil_append,
    List.cons_append, bcastRev]
  cases bcastRev A.reverse B.reverse <;> simp

theorem broadcast_append_same2 (A B : List Nat) (x y : Nat) :
    broadcastShapes? (A ++ [x, y]) (B ++ [x, y]) = (broadcastShapes? A B).map (· ++ [x, y]) := by
  have h1 : A ++ [x, y] = (A ++ [x]) ++ [y] := by simp
  have h2 : B ++ [x, y] = (B ++ [x]) ++ [y] := by simp
  rw [h1, h2, broadcast_append_same, broadcast_append_same]
  cases broadcastShapes? A B <;> simp

theorem blockDiagShape_append (B : List Nat) (nb k k' : Nat) :
    blockDiagShape (B ++ [nb, k, k']) = some (B ++ [nb * k, nb * k']) := by
  simp [blockDiagShape]

end LinOp.C19
