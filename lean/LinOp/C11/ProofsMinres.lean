/-
C11 — global MINRES invariants: the per-step facts (`givens_qr_invariant`, `givens_column`, `search_recurrence`,
`minres_lanczos_part`) assembled into statements about the whole iteration of the model (`colStep` iterated).

One (shift, column) pair is followed as a *track* `(Lz, Gv)`; `trackStep` is the projection of `colStep` on one shift
(`colStep_iter_get`).  Ghost vectors (proof-only):

    m_{j+1} = −s_j m_j + c_j z_{j+1}         (the last column of  Z_{j+1} G_1ᵀ ⋯ G_jᵀ)
    p_j     =  c_j m_j + s_j z_{j+1}         (its j-th column),   m_1 = z_1

with `z_j` the Lanczos vectors (`zvec`), `c_j, s_j` the Givens coefficients.  The invariant `TrackInv` says
`A_σ d_j = p_j` for the two live search vectors and `b − A_σ x_j = φ̄_j m_{j+1}` (`φ̄_j = scale_prev`), where
`A_σ = K + σ·P` (`P` inverts the preconditioner; `P = I` without one).
-/
import LinOp.C11.Proofs
import Mathlib.Algebra.Module.LinearMap.End
import Mathlib.Algebra.Module.Pi
import Mathlib.Logic.Function.Iterate
import Mathlib.Tactic.FieldSimp
import Mathlib.Tactic.Ring
import Mathlib.Tactic.LinearCombination

namespace LinOp.C11
open Function

section track
variable {α : Type} [Field α] {n : Nat}

/-- The loop body of `minres` seen by one (shift, column) pair. -/
def trackStep (N : NumOps α) (P : Params α) (s : Sys α n) (σ : α) (t : Lz α n × Gv α n) : Lz α n × Gv α n :=
  let o := lanczosStep N P s t.1
  ({ z2 := t.1.z1, z1 := o.zc, q1 := o.qc, betaPrev := o.betaCurr },
   givensStep N σ t.1.q1 o.alpha t.1.betaPrev o.betaCurr t.2)

/-- `colStep` iterated `j` times acts on the `k`-th shift as `trackStep` iterated `j` times. -/
theorem colStep_iter_get (N : NumOps α) (P : Params α) (s : Sys α n) (j : Nat) (c : ColSt α n) (k : Nat) (σ : α)
    (g : Gv α n) (hσ : s.shifts[k]? = some σ) (hg : c.gs[k]? = some g) :
    ((colStep N P s)^[j] c).gs[k]? = some ((trackStep N P s σ)^[j] (c.lz, g)).2 ∧
    ((colStep N P s)^[j] c).lz = ((trackStep N P s σ)^[j] (c.lz, g)).1 := by
  induction j generalizing c g with
  | zero => exact ⟨hg, rfl⟩
  | succ j ih =>
    rw [iterate_succ_apply, iterate_succ_apply]
    have hg' : (colStep N P s c).gs[k]? = some (trackStep N P s σ (c.lz, g)).2 := by
      simp only [colStep, List.getElem?_zipWith, hσ, hg]; rfl
    exact ih (colStep N P s c) (trackStep N P s σ (c.lz, g)).2 hg'

/-- The loop of the model runs every column `k` times for one common `k ≤ fuel`
(`k` = number of iterations performed, whatever the convergence test decided). -/
theorem iterate_cs (N : NumOps α) (P : Params α) (sys : List (Sys α n)) (fuel i : Nat) (st : St α n) :
    ∃ k, k ≤ fuel ∧ (iterate N P sys fuel i st).iters = st.iters + k ∧
      ∀ (m : Nat) (s : Sys α n) (c : ColSt α n), sys[m]? = some s → st.cs[m]? = some c →
        (iterate N P sys fuel i st).cs[m]? = some ((colStep N P s)^[k] c) := by
  induction fuel generalizing i st with
  | zero => exact ⟨0, Nat.le_refl _, rfl, fun m s c _ hc => hc⟩
  | succ fuel ih =>
    have hstep : ∀ (m : Nat) (s : Sys α n) (c : ColSt α n), sys[m]? = some s → st.cs[m]? = some c →
        (List.zipWith (colStep N P) sys st.cs)[m]? = some (colStep N P s c) := by
      intro m s c hs hc
      simp only [List.getElem?_zipWith, hs, hc]
    unfold iterate
    simp only
    split
    · split
      · exact ⟨1, by omega, rfl, fun m s c hs hc => hstep m s c hs hc⟩
      · obtain ⟨k, hk, hit, hcs⟩ := ih (i + 1)
          { cs := List.zipWith (colStep N P) sys st.cs, iters := st.iters + 1,
            trace := (st.cs.map fun c => c.lz.q1) :: st.trace,
            convs := mean ((List.zipWith (colStep N P) sys st.cs).map (convRatios N)).flatten :: st.convs,
            betas := ((List.zipWith (colStep N P) sys st.cs).map fun c => c.lz.betaPrev) :: st.betas }
        refine ⟨k + 1, by omega, by rw [hit]; simp only; omega, ?_⟩
        intro m s c hs hc
        rw [hcs m s _ hs (hstep m s c hs hc), iterate_succ_apply]
    · obtain ⟨k, hk, hit, hcs⟩ := ih (i + 1)
        { cs := List.zipWith (colStep N P) sys st.cs, iters := st.iters + 1,
          trace := (st.cs.map fun c => c.lz.q1) :: st.trace, convs := st.convs,
          betas := ((List.zipWith (colStep N P) sys st.cs).map fun c => c.lz.betaPrev) :: st.betas }
      refine ⟨k + 1, by omega, by rw [hit]; simp only; omega, ?_⟩
      intro m s c hs hc
      rw [hcs m s _ hs (hstep m s c hs hc), iterate_succ_apply]

/-! ### ghost vectors and the invariant -/

/-- `m_j` (from `m_{j−1}`, `z_j`, rotation `j−1`). -/
def gM0 (t : Lz α n × Gv α n) (mm : Vec α n) : Vec α n := fun i => -t.2.sin2 * mm i + t.2.cos2 * t.1.z2 i
/-- `m_{j+1}`: direction of the residual after `j` iterations. -/
def gM1 (t : Lz α n × Gv α n) (mm : Vec α n) : Vec α n := fun i => -t.2.sin1 * gM0 t mm i + t.2.cos1 * t.1.z1 i
/-- `p_{j−1}`. -/
def gP0 (t : Lz α n × Gv α n) (mm : Vec α n) : Vec α n := fun i => t.2.cos2 * mm i + t.2.sin2 * t.1.z2 i
/-- `p_j = A_σ d_j`. -/
def gP1 (t : Lz α n × Gv α n) (mm : Vec α n) : Vec α n := fun i => t.2.cos1 * gM0 t mm i + t.2.sin1 * t.1.z1 i

/-- Invariant of one track after any number of iterations (`mm` = ghost vector `m_{j−1}`). -/
structure TrackInv (A pinv : Vec α n →ₗ[α] Vec α n) (σ : α) (b : Vec α n) (t : Lz α n × Gv α n) (mm : Vec α n) :
    Prop where
  rot1 : t.2.cos1 * t.2.cos1 + t.2.sin1 * t.2.sin1 = 1
  rot2 : t.2.cos2 * t.2.cos2 + t.2.sin2 * t.2.sin2 = 1
  pq : pinv t.1.q1 = t.1.z1
  As2 : ∀ i, A t.2.s2 i + σ * pinv t.2.s2 i = gP0 t mm i
  As1 : ∀ i, A t.2.s1 i + σ * pinv t.2.s1 i = gP1 t mm i
  res : ∀ i, b i - (A t.2.sol i + σ * pinv t.2.sol i) = t.2.scalePrev * gM1 t mm i

/-- The step is regular: the (clamped) `beta_curr` is non-zero and `radius_curr` is a genuine non-zero square root. -/
def StepOK (N : NumOps α) (P : Params α) (s : Sys α n) (σ : α) (t : Lz α n × Gv α n) : Prop :=
  let o := lanczosStep N P s t.1
  let r := rotTerms N σ o.alpha t.1.betaPrev o.betaCurr t.2
  o.betaCurr ≠ 0 ∧ r.radius * r.radius = r.diag0 * r.diag0 + o.betaCurr * o.betaCurr ∧ r.radius ≠ 0

/-- Lanczos three-term relation of one step (holds whatever the clamp did, as long as `beta_curr ≠ 0`):
`K q = α z₁ + β_prev z₂ + β_curr z_new`. -/
theorem lanczos_three_term (N : NumOps α) (P : Params α) (s : Sys α n) (l : Lz α n)
    (hb : (lanczosStep N P s l).betaCurr ≠ 0) (i : Fin n) :
    applyA P s l.q1 i = (lanczosStep N P s l).alpha * l.z1 i + l.betaPrev * l.z2 i +
      (lanczosStep N P s l).betaCurr * (lanczosStep N P s l).zc i := by
  have hz : (lanczosStep N P s l).zc i =
      (applyA P s l.q1 i - (lanczosStep N P s l).alpha * l.z1 i - l.betaPrev * l.z2 i) /
        (lanczosStep N P s l).betaCurr := by
    simp only [lanczosStep, mem_eq]
  rw [hz]; field_simp; ring

theorem lanczos_qc (N : NumOps α) (P : Params α) (s : Sys α n) (l : Lz α n) (pinv : Vec α n →ₗ[α] Vec α n)
    (hpre : ∀ v, pinv (s.pre v) = v) :
    pinv (lanczosStep N P s l).qc = (lanczosStep N P s l).zc := by
  have h1 : (lanczosStep N P s l).qc =
      ((lanczosStep N P s l).betaCurr)⁻¹ • s.pre (fun i => applyA P s l.q1 i -
        (lanczosStep N P s l).alpha * l.z1 i - l.betaPrev * l.z2 i) := by
    funext i
    simp only [lanczosStep, mem_eq, Pi.smul_apply, smul_eq_mul]
    rw [div_eq_inv_mul]
  have h2 : (lanczosStep N P s l).zc =
      ((lanczosStep N P s l).betaCurr)⁻¹ • (fun i => applyA P s l.q1 i -
        (lanczosStep N P s l).alpha * l.z1 i - l.betaPrev * l.z2 i) := by
    funext i
    simp only [lanczosStep, mem_eq, Pi.smul_apply, smul_eq_mul]
    rw [div_eq_inv_mul]
  rw [h1, map_smul, hpre, ← h2]

/-- **One iteration preserves the invariant.** -/
theorem TrackInv.step (N : NumOps α) (P : Params α) (s : Sys α n) (σ : α) (A pinv : Vec α n →ₗ[α] Vec α n)
    (hA : ∀ v, applyA P s v = A v) (hpre : ∀ v, pinv (s.pre v) = v) (b : Vec α n) (t : Lz α n × Gv α n)
    (mm : Vec α n) (h : TrackInv A pinv σ b t mm) (hok : StepOK N P s σ t) :
    TrackInv A pinv σ b (trackStep N P s σ t) (gM0 t mm) := by
  obtain ⟨hbc, hrad, hr0⟩ := hok
  set o := lanczosStep N P s t.1 with ho
  set r := rotTerms N σ o.alpha t.1.betaPrev o.betaCurr t.2 with hr
  have hc : r.cosc = r.diag0 / r.radius := rfl
  have hs : r.sinc = o.betaCurr / r.radius := rfl
  have hd : r.diag = r.diag0 * r.cosc + r.sinc * o.betaCurr := rfl
  have hdr : r.diag = r.radius := by rw [hd, hc, hs]; field_simp; linear_combination -hrad
  have hrot : r.cosc * r.cosc + r.sinc * r.sinc = 1 := by rw [hc, hs]; field_simp; linear_combination -hrad
  have hcr : r.cosc * r.radius = r.diag0 := by rw [hc]; field_simp
  have hsr : r.sinc * r.radius = o.betaCurr := by rw [hs]; field_simp
  have hsub : r.subsub = t.2.sin2 * t.1.betaPrev := rfl
  have hsb : r.sub = t.2.cos2 * t.1.betaPrev * t.2.cos1 + t.2.sin1 * (o.alpha + σ) := rfl
  have hd0 : r.diag0 = (o.alpha + σ) * t.2.cos1 - t.2.sin1 * (t.2.cos2 * t.1.betaPrev) := rfl
  -- new state, field by field
  have e_z2 : (trackStep N P s σ t).1.z2 = t.1.z1 := rfl
  have e_z1 : (trackStep N P s σ t).1.z1 = o.zc := rfl
  have e_q1 : (trackStep N P s σ t).1.q1 = o.qc := rfl
  have e_c2 : (trackStep N P s σ t).2.cos2 = t.2.cos1 := rfl
  have e_s2 : (trackStep N P s σ t).2.sin2 = t.2.sin1 := rfl
  have e_c1 : (trackStep N P s σ t).2.cos1 = r.cosc := rfl
  have e_s1 : (trackStep N P s σ t).2.sin1 = r.sinc := rfl
  have e_d2 : (trackStep N P s σ t).2.s2 = t.2.s1 := rfl
  have e_d1 : (trackStep N P s σ t).2.s1 =
      r.diag⁻¹ • (t.1.q1 - r.sub • t.2.s1 - r.subsub • t.2.s2) := by
    funext i
    simp only [trackStep, givensStep, mem_eq, Pi.smul_apply, Pi.sub_apply, smul_eq_mul]
    rw [div_eq_inv_mul]
  have e_sc : (trackStep N P s σ t).2.scalePrev = -(t.2.scalePrev * r.sinc) := by
    simp only [trackStep, givensStep]; ring
  have e_sol : (trackStep N P s σ t).2.sol =
      t.2.sol + (t.2.scalePrev * r.cosc) • (trackStep N P s σ t).2.s1 := by
    funext i
    simp only [trackStep, givensStep, mem_eq, Pi.add_apply, Pi.smul_apply, smul_eq_mul]
    ring
  -- the ghost vectors shift
  have g_m0 : gM0 (trackStep N P s σ t) (gM0 t mm) = gM1 t mm := by
    funext i; simp only [gM0, gM1, e_s2, e_c2, e_z2]
  have g_p0 : gP0 (trackStep N P s σ t) (gM0 t mm) = gP1 t mm := by
    funext i; simp only [gP0, gP1, gM0, e_s2, e_c2, e_z2]
  -- A_σ q = (α + σ) z₁ + β_prev z₂ + β_curr z_new
  have hAq : ∀ i, A t.1.q1 i + σ * pinv t.1.q1 i =
      (o.alpha + σ) * t.1.z1 i + t.1.betaPrev * t.1.z2 i + o.betaCurr * o.zc i := by
    intro i
    rw [← hA, h.pq, lanczos_three_term N P s t.1 hbc i]; ring
  -- key: A_σ d_new = c m₁ + s z_new
  have hAd : ∀ i, A (trackStep N P s σ t).2.s1 i + σ * pinv (trackStep N P s σ t).2.s1 i =
      r.cosc * gM1 t mm i + r.sinc * o.zc i := by
    intro i
    rw [e_d1]
    simp only [map_smul, map_sub, Pi.smul_apply, Pi.sub_apply, smul_eq_mul]
    have h1 := h.As1 i
    have h2 := h.As2 i
    have hq := hAq i
    have hne : r.diag ≠ 0 := by rw [hdr]; exact hr0
    have key : (A t.1.q1 i + σ * pinv t.1.q1 i) - r.sub * (A t.2.s1 i + σ * pinv t.2.s1 i) -
        r.subsub * (A t.2.s2 i + σ * pinv t.2.s2 i) = r.diag * (r.cosc * gM1 t mm i + r.sinc * o.zc i) := by
      rw [h1, h2, hq, hdr, mul_add, ← mul_assoc, ← mul_assoc, mul_comm r.radius r.cosc, mul_comm r.radius r.sinc,
        hcr, hsr, hsb, hsub, hd0]
      simp only [gP1, gP0, gM1, gM0]
      linear_combination (-(o.alpha + σ) * t.1.z1 i - t.2.cos2 * t.1.betaPrev * (-t.2.sin2 * mm i + t.2.cos2 * t.1.z2 i)) * h.rot1 +
        (-t.1.betaPrev * t.1.z2 i) * h.rot2
    field_simp
    linear_combination key
  refine ⟨?_, ?_, ?_, ?_, ?_, ?_⟩
  · rw [e_c1, e_s1]; exact hrot
  · rw [e_c2, e_s2]; exact h.rot1
  · rw [e_q1, e_z1]; exact lanczos_qc N P s t.1 pinv hpre
  · intro i; rw [e_d2, g_p0]; exact h.As1 i
  · intro i
    rw [hAd i]
    simp only [gP1, g_m0, e_c1, e_s1, e_z1]
  · intro i
    rw [e_sol]
    simp only [map_add, map_smul, Pi.add_apply, Pi.smul_apply, smul_eq_mul]
    have hres := h.res i
    have hadi := hAd i
    simp only [gM1, g_m0, e_c1, e_s1, e_z1, e_sc]
    simp only [gM1] at hres hadi
    linear_combination hres - t.2.scalePrev * r.cosc * hadi -
      (t.2.scalePrev * (-t.2.sin1 * gM0 t mm i + t.2.cos1 * t.1.z1 i)) * hrot

end track
end LinOp.C11
