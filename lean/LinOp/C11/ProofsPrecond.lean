/-
C11 — the preconditioned case: `M⁻¹`-orthonormality of the Lanczos vectors (three-term argument in the inner product
`⟨u, M⁻¹ v⟩`), unit norms without clamping, least squares in the `M⁻¹`-norm.
-/
import LinOp.C11.ProofsKrylov

namespace LinOp.C11
open Function

section abstractB
variable {α : Type} [Field α] {n : Nat}

/-- `three_term_orthonormal` in the inner product `⟨u, Mi v⟩` (`Mi` linear and symmetric, `A` symmetric w.r.t. it). -/
theorem three_term_orthonormalB (A Mi : Vec α n →ₗ[α] Vec α n) (hsym : ∀ u v, A u ⬝ᵥ Mi v = u ⬝ᵥ Mi (A v))
    (hcomm : ∀ u v : Vec α n, u ⬝ᵥ Mi v = v ⬝ᵥ Mi u) (Z : Nat → Vec α n) (al be : Nat → α) (J : Nat)
    (h3 : ∀ k, k < J → A (Z k) = al k • Z k + be k • (if k = 0 then 0 else Z (k - 1)) + be (k + 1) • Z (k + 1))
    (hal : ∀ k, k < J → al k = A (Z k) ⬝ᵥ Mi (Z k)) (hbe : ∀ k, k < J → be (k + 1) ≠ 0)
    (hunit : ∀ k, k ≤ J → Z k ⬝ᵥ Mi (Z k) = 1) :
    ∀ a b, a ≤ J → b ≤ J → Z a ⬝ᵥ Mi (Z b) = if a = b then 1 else 0 := by
  induction J with
  | zero =>
    intro a b ha hb
    have : a = 0 := by omega
    have : b = 0 := by omega
    subst_vars
    rw [if_pos rfl]; exact hunit 0 (le_refl _)
  | succ J ih =>
    have IH := ih (fun k hk => h3 k (by omega)) (fun k hk => hal k (by omega)) (fun k hk => hbe k (by omega))
      (fun k hk => hunit k (by omega))
    have hnew : ∀ b, b ≤ J → Z (J + 1) ⬝ᵥ Mi (Z b) = 0 := by
      intro b hb
      have hJ3 := h3 J (by omega)
      have hexp : be (J + 1) • Z (J + 1) = A (Z J) - al J • Z J - be J • (if J = 0 then 0 else Z (J - 1)) := by
        rw [hJ3]; abel
      have hmul : be (J + 1) * (Z (J + 1) ⬝ᵥ Mi (Z b)) = A (Z J) ⬝ᵥ Mi (Z b) - al J * (Z J ⬝ᵥ Mi (Z b)) -
          be J * ((if J = 0 then 0 else Z (J - 1)) ⬝ᵥ Mi (Z b)) := by
        rw [← smul_eq_mul, ← smul_dotProduct, hexp, sub_dotProduct, sub_dotProduct, smul_dotProduct, smul_dotProduct]
        simp only [smul_eq_mul]
      have hprevJ : ∀ c, c ≤ J → (if J = 0 then (0 : Vec α n) else Z (J - 1)) ⬝ᵥ Mi (Z c) =
          if J = 0 then 0 else if J - 1 = c then 1 else 0 := by
        intro c hc
        by_cases hJ0 : J = 0
        · simp [hJ0]
        · simp only [hJ0, if_false]; exact IH (J - 1) c (by omega) hc
      have hz : be (J + 1) * (Z (J + 1) ⬝ᵥ Mi (Z b)) = 0 := by
        rw [hmul]
        rcases Nat.lt_or_ge b J with hlt | hge
        · have hb3 := h3 b (by omega)
          rw [hsym, hb3, map_add, map_add, map_smul, map_smul, map_smul, dotProduct_add, dotProduct_add,
            dotProduct_smul, dotProduct_smul, dotProduct_smul,
            IH J b (le_refl _) hb, if_neg (by omega), IH J (b + 1) (le_refl _) (by omega), hprevJ b hb]
          have hprevb : Z J ⬝ᵥ Mi (if b = 0 then (0 : Vec α n) else Z (b - 1)) = 0 := by
            by_cases hb0 : b = 0
            · simp [hb0]
            · simp only [hb0, if_false]; rw [IH J (b - 1) (le_refl _) (by omega), if_neg (by omega)]
          rw [hprevb]
          have hJ0 : J ≠ 0 := by omega
          simp only [hJ0, if_false, smul_eq_mul, mul_zero, zero_add, sub_zero]
          by_cases hb1 : J = b + 1
          · have : J - 1 = b := by omega
            rw [if_pos hb1, if_pos this, hb1]; simp
          · have : ¬ (J - 1 = b) := by omega
            rw [if_neg hb1, if_neg this]; simp
        · have : b = J := by omega
          subst this
          rw [← hal b (by omega), hunit b (by omega), hprevJ b (le_refl _)]
          by_cases hJ0 : b = 0
          · simp [hJ0]
          · have : ¬ (b - 1 = b) := by omega
            simp [hJ0, this]
      exact (mul_eq_zero.mp hz).resolve_left (hbe J (by omega))
    intro a b ha hb
    rcases Nat.lt_or_ge a (J + 1) with ha' | ha'
    · rcases Nat.lt_or_ge b (J + 1) with hb' | hb'
      · exact IH a b (by omega) (by omega)
      · have : b = J + 1 := by omega
        subst this
        rw [hcomm, hnew a (by omega), if_neg (by omega)]
    · have : a = J + 1 := by omega
      subst this
      rcases Nat.lt_or_ge b (J + 1) with hb' | hb'
      · rw [hnew b (by omega), if_neg (by omega)]
      · have : b = J + 1 := by omega
        subst this
        rw [if_pos rfl]; exact hunit _ (le_refl _)

end abstractB

section modelB
variable {α : Type} [Field α] {n : Nat}
variable (N : NumOps α) (P : Params α) (s : Sys α n) (σ : α)

theorem map_div_vec (Mi : Vec α n →ₗ[α] Vec α n) (u : Vec α n) (c : α) :
    Mi (fun i => u i / c) = fun i => Mi u i / c := by
  have : (fun i => u i / c) = c⁻¹ • u := by funext i; simp [div_eq_inv_mul]
  rw [this, map_smul]; funext i; simp [div_eq_inv_mul]

/-- With the preconditioner `Mi`, `qvec = Mi zvec` throughout. -/
theorem q1_eq_Mi_z1 (Mi : Vec α n →ₗ[α] Vec α n) (hpre : ∀ v, s.pre v = Mi v) (b : Vec α n) (k : Nat) :
    (trk N P s σ (track0 N s b) k).1.q1 = Mi (trk N P s σ (track0 N s b) k).1.z1 := by
  induction k with
  | zero =>
    have hz : (trk N P s σ (track0 N s b) 0).1.z1 = fun i => b i / (initLz N s b).betaPrev := by
      funext i; simp [trk, track0, initLz]
    rw [hz, map_div_vec]
    funext i; simp [trk, track0, initLz, hpre]
  | succ k _ =>
    rw [trk_succ]
    have hz : (trackStep N P s σ (trk N P s σ (track0 N s b) k)).1.z1 =
        fun i => unnormZ N P s (trk N P s σ (track0 N s b) k).1 i /
          (lanczosStep N P s (trk N P s σ (track0 N s b) k).1).betaCurr := by
      funext i; exact zc_eq_unnorm N P s _ i
    rw [hz, map_div_vec]
    funext i
    show (lanczosStep N P s (trk N P s σ (track0 N s b) k).1).qc i = _
    unfold unnormZ
    simp only [lanczosStep, mem_eq, hpre]

/-- Preconditioned three-term relation: `(A ∘ Mi) z_k = α z_k + β_k z_{k−1} + β_{k+1} z_{k+1}`. -/
theorem three_term_vecB (A Mi : Vec α n →ₗ[α] Vec α n) (hA : ∀ v, applyA P s v = A v) (hpre : ∀ v, s.pre v = Mi v)
    (b : Vec α n) (k : Nat) (hok : StepOK N P s σ (trk N P s σ (track0 N s b) k)) :
    (A ∘ₗ Mi) (trk N P s σ (track0 N s b) k).1.z1 =
      (lanczosStep N P s (trk N P s σ (track0 N s b) k).1).alpha • (trk N P s σ (track0 N s b) k).1.z1 +
      (trk N P s σ (track0 N s b) k).1.betaPrev •
        (if k = 0 then 0 else (trk N P s σ (track0 N s b) (k - 1)).1.z1) +
      (trk N P s σ (track0 N s b) (k + 1)).1.betaPrev • (trk N P s σ (track0 N s b) (k + 1)).1.z1 := by
  have hbc := hok.1
  funext i
  have h3 := lanczos_three_term N P s (trk N P s σ (track0 N s b) k).1 hbc i
  rw [hA, q1_eq_Mi_z1 N P s σ Mi hpre b k, z2_eq N P s σ b k] at h3
  have e1 : (trk N P s σ (track0 N s b) (k + 1)).1.betaPrev =
      (lanczosStep N P s (trk N P s σ (track0 N s b) k).1).betaCurr := by rw [trk_succ]; rfl
  have e2 : (trk N P s σ (track0 N s b) (k + 1)).1.z1 =
      (lanczosStep N P s (trk N P s σ (track0 N s b) k).1).zc := by rw [trk_succ]; rfl
  simp only [LinearMap.comp_apply, Pi.add_apply, Pi.smul_apply, smul_eq_mul, e1, e2]
  rw [h3]

/-- **`M⁻¹`-orthonormality of the preconditioned Lanczos vectors** (`⟨zvec_a, qvec_c⟩ = δ_ac`): symmetric `A` and `Mi`,
regular steps, unit `M⁻¹`-norms. -/
theorem lanczos_orthonormalB (A Mi : Vec α n →ₗ[α] Vec α n) (hA : ∀ v, applyA P s v = A v)
    (hsym : ∀ u v, dot (A u) v = dot u (A v)) (hMsym : ∀ u v, dot u (Mi v) = dot (Mi u) v)
    (hpre : ∀ v, s.pre v = Mi v) (b : Vec α n) (J : Nat) (hreg : Regular N P s σ (track0 N s b) J)
    (hunit : ∀ k, k ≤ J → dot (trk N P s σ (track0 N s b) k).1.z1 (Mi (trk N P s σ (track0 N s b) k).1.z1) = 1) :
    ∀ a c, a ≤ J → c ≤ J → dot (trk N P s σ (track0 N s b) a).1.z1 (Mi (trk N P s σ (track0 N s b) c).1.z1) =
      if a = c then 1 else 0 := by
  intro a c ha hc
  rw [dot_eq_dotProduct]
  refine three_term_orthonormalB (A ∘ₗ Mi) Mi ?_ ?_
    (fun k => (trk N P s σ (track0 N s b) k).1.z1)
    (fun k => (lanczosStep N P s (trk N P s σ (track0 N s b) k).1).alpha)
    (fun k => (trk N P s σ (track0 N s b) k).1.betaPrev) J ?_ ?_ ?_ ?_ a c ha hc
  · intro u v
    simp only [LinearMap.comp_apply, ← dot_eq_dotProduct]
    rw [hsym, hMsym u]
  · intro u v
    simp only [← dot_eq_dotProduct]
    rw [hMsym, dot_comm]
  · intro k hk
    exact three_term_vecB N P s σ A Mi hA hpre b k (hreg k hk)
  · intro k hk
    show (lanczosStep N P s (trk N P s σ (track0 N s b) k).1).alpha = _
    rw [← dot_eq_dotProduct, LinearMap.comp_apply, ← hA, ← q1_eq_Mi_z1 N P s σ Mi hpre b k]
    simp only [lanczosStep, mem_eq]
  · intro k hk
    have e1 : (trk N P s σ (track0 N s b) (k + 1)).1.betaPrev =
        (lanczosStep N P s (trk N P s σ (track0 N s b) k).1).betaCurr := by rw [trk_succ]; rfl
    show (trk N P s σ (track0 N s b) (k + 1)).1.betaPrev ≠ 0
    rw [e1]; exact (hreg k hk).1
  · intro k hk
    rw [← dot_eq_dotProduct]; exact hunit k hk

theorem dot_div_divB (Mi : Vec α n →ₗ[α] Vec α n) (u : Vec α n) (c : α) :
    dot (fun i => u i / c) (Mi (fun i => u i / c)) = dot u (Mi u) / (c * c) := by
  rw [map_div_vec]
  simp only [dot_eq_sum, div_mul_div_comm, Finset.sum_div]

end modelB

section exactB
variable {α : Type} [Field α] [LinearOrder α] [IsStrictOrderedRing α] {n : Nat}
variable (N : NumOps α) (P : Params α) (s : Sys α n) (σ : α)

/-- Exact arithmetic, positive semidefinite preconditioner, clamp never active ⇒ unit `M⁻¹`-norms. -/
theorem lanczos_unit_of_noclampB (hN : ExactOps N) (heps : 0 < P.eps) (Mi : Vec α n →ₗ[α] Vec α n)
    (hpre : ∀ v, s.pre v = Mi v) (hpsd : ∀ v, 0 ≤ dot v (Mi v)) (b : Vec α n) (hb : 0 < dot b (Mi b)) (J : Nat)
    (hnc : NoClamp N P s σ b J) (k : Nat) (hk : k ≤ J) :
    dot (trk N P s σ (track0 N s b) k).1.z1 (Mi (trk N P s σ (track0 N s b) k).1.z1) = 1 := by
  cases k with
  | zero =>
    have hz : (trk N P s σ (track0 N s b) 0).1.z1 = fun i => b i / N.sqrt (dot b (Mi b)) := by
      funext i; simp [trk, track0, initLz, hpre]
    rw [hz, dot_div_divB, hN.sqrt_sq _ (le_of_lt hb)]
    exact div_self (ne_of_gt hb)
  | succ k =>
    have hc := hnc k (by omega)
    set l := (trk N P s σ (track0 N s b) k).1 with hl
    rw [hpre] at hc
    have hbeta : (lanczosStep N P s l).betaCurr = N.sqrt (dot (unnormZ N P s l) (Mi (unnormZ N P s l))) := by
      rw [betaCurr_eq_unnorm, hpre]; exact clampMin_of_ge N hN _ _ hc
    have hsq := hN.sqrt_sq _ (hpsd (unnormZ N P s l))
    have hpos : 0 < N.sqrt (dot (unnormZ N P s l) (Mi (unnormZ N P s l))) := lt_of_lt_of_le heps hc
    have hz : (trk N P s σ (track0 N s b) (k + 1)).1.z1 =
        fun i => unnormZ N P s l i / N.sqrt (dot (unnormZ N P s l) (Mi (unnormZ N P s l))) := by
      rw [trk_succ]; funext i
      show (lanczosStep N P s l).zc i = _
      rw [zc_eq_unnorm, hbeta]
    have hne : dot (unnormZ N P s l) (Mi (unnormZ N P s l)) ≠ 0 := by
      rw [← hsq]; exact ne_of_gt (mul_pos hpos hpos)
    rw [hz, dot_div_divB, hsq]
    exact div_self hne

omit [IsStrictOrderedRing α] in
theorem beta0_ne_zeroB (hN : ExactOps N) (Mi : Vec α n →ₗ[α] Vec α n) (hpre : ∀ v, s.pre v = Mi v) (b : Vec α n)
    (hb : 0 < dot b (Mi b)) : (initLz N s b).betaPrev ≠ 0 := by
  have h : (initLz N s b).betaPrev = N.sqrt (dot b (Mi b)) := by simp [initLz, hpre]
  rw [h]
  intro h0
  have := hN.sqrt_sq _ (le_of_lt hb)
  rw [h0, mul_zero] at this
  exact absurd this (ne_of_lt hb)

end exactB

section lsqB
variable {α : Type} [Field α] {n : Nat}

/-- `lsq_core` in the inner product `⟨u, Mi v⟩`. -/
theorem lsq_coreB (L Mi : Vec α n →ₗ[α] Vec α n) (hcomm : ∀ u v : Vec α n, u ⬝ᵥ Mi v = v ⬝ᵥ Mi u) (b xj m : Vec α n) (φ : α)
    (d p : Nat → Vec α n) (τ : Nat → α) (j : Nat)
    (hx : xj = ∑ k ∈ Finset.range j, τ k • d k) (hL : ∀ k, k < j → L (d k) = p k) (hres : b - L xj = φ • m)
    (hm : m ⬝ᵥ Mi m = 1) (hpm : ∀ k, k < j → p k ⬝ᵥ Mi m = 0) (y : Nat → α) :
    (b - L (∑ k ∈ Finset.range j, y k • d k)) ⬝ᵥ Mi (b - L (∑ k ∈ Finset.range j, y k • d k)) =
      φ * φ + (∑ k ∈ Finset.range j, (τ k - y k) • p k) ⬝ᵥ Mi (∑ k ∈ Finset.range j, (τ k - y k) • p k) := by
  have hLsum : ∀ c : Nat → α, L (∑ k ∈ Finset.range j, c k • d k) = ∑ k ∈ Finset.range j, c k • p k := by
    intro c
    rw [map_sum]
    exact Finset.sum_congr rfl fun k hk => by rw [map_smul, hL k (Finset.mem_range.mp hk)]
  have hdec : b - L (∑ k ∈ Finset.range j, y k • d k) = φ • m + ∑ k ∈ Finset.range j, (τ k - y k) • p k := by
    have h1 : b - L (∑ k ∈ Finset.range j, y k • d k) = (b - L xj) + (L xj - L (∑ k ∈ Finset.range j, y k • d k)) :=
      (sub_add_sub_cancel _ _ _).symm
    rw [h1, hres, hx, hLsum, hLsum, ← Finset.sum_sub_distrib]
    congr 1
    exact Finset.sum_congr rfl fun k _ => by rw [sub_smul]
  have hwm : (∑ k ∈ Finset.range j, (τ k - y k) • p k) ⬝ᵥ Mi m = 0 := by
    rw [sum_dotProduct]
    exact Finset.sum_eq_zero fun k hk => by rw [smul_dotProduct, hpm k (Finset.mem_range.mp hk), smul_zero]
  have hmw : m ⬝ᵥ Mi (∑ k ∈ Finset.range j, (τ k - y k) • p k) = 0 := by rw [hcomm]; exact hwm
  rw [hdec, map_add, map_smul, add_dotProduct, dotProduct_add, dotProduct_add, smul_dotProduct, smul_dotProduct,
    dotProduct_smul, dotProduct_smul, hm, hwm, hmw]
  simp only [smul_eq_mul, mul_one, mul_zero, add_zero, zero_add]

end lsqB
end LinOp.C11
