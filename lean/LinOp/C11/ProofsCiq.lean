/-
C11 — contour-integral quadrature: reduction of the matrix statement to the scalar quadrature rule.
If `Σ_q w_q / (s_q − λ) = ρ(λ)` for every eigenvalue `λ` of `K`, then `Σ_q w_q (−K + s_q I)⁻¹ b = ρ(K) b`
(spectral calculus in a given orthonormal eigenbasis); with `ρ(λ)² λ = 1` applying it twice inverts `K`.
-/
import LinOp.C11.Proofs
import Mathlib.Algebra.Module.LinearMap.End
import Mathlib.Algebra.Module.Pi
import Mathlib.Algebra.BigOperators.Field
import Mathlib.Tactic.FieldSimp
import Mathlib.Tactic.Ring
import Mathlib.Tactic.LinearCombination

namespace LinOp.C11

section spectral
variable {α : Type} [Field α] {n : Nat}

/-- `f(K) b = Σ_i f_i ⟨u_i, b⟩ u_i` in the eigenbasis `u`. -/
def spectralApply (u : Fin n → Vec α n) (f : Fin n → α) (b : Vec α n) : Vec α n :=
  ∑ i, (f i * dot (u i) b) • u i

/-- `u` is an orthonormal eigenbasis of `K` with eigenvalues `lam` (completeness as resolution of the identity). -/
structure EigenBasis (K : Vec α n →ₗ[α] Vec α n) (u : Fin n → Vec α n) (lam : Fin n → α) : Prop where
  eig : ∀ i, K (u i) = lam i • u i
  orth : ∀ i j, dot (u i) (u j) = if i = j then 1 else 0
  complete : ∀ b : Vec α n, b = spectralApply u (fun _ => 1) b

theorem dot_sum_right (w : Vec α n) (c : Fin n → α) (u : Fin n → Vec α n) :
    dot w (∑ i, c i • u i) = ∑ i, c i * dot w (u i) := by
  simp only [dot_eq_sum, Finset.sum_apply, Pi.smul_apply, smul_eq_mul, Finset.mul_sum]
  rw [Finset.sum_comm]
  exact Finset.sum_congr rfl fun i _ => Finset.sum_congr rfl fun j _ => by ring

theorem dot_spectral {K : Vec α n →ₗ[α] Vec α n} {u : Fin n → Vec α n} {lam : Fin n → α} (h : EigenBasis K u lam)
    (f : Fin n → α) (b : Vec α n) (k : Fin n) : dot (u k) (spectralApply u f b) = f k * dot (u k) b := by
  unfold spectralApply
  rw [dot_sum_right]
  simp only [h.orth, mul_ite, mul_one, mul_zero, Finset.sum_ite_eq, Finset.mem_univ, if_true]

theorem K_spectral {K : Vec α n →ₗ[α] Vec α n} {u : Fin n → Vec α n} {lam : Fin n → α} (h : EigenBasis K u lam)
    (f : Fin n → α) (b : Vec α n) : K (spectralApply u f b) = spectralApply u (fun i => f i * lam i) b := by
  unfold spectralApply
  rw [map_sum]
  exact Finset.sum_congr rfl fun i _ => by rw [map_smul, h.eig, smul_smul]; congr 1; ring

theorem spectral_ext {K : Vec α n →ₗ[α] Vec α n} {u : Fin n → Vec α n} {lam : Fin n → α} (h : EigenBasis K u lam)
    (x y : Vec α n) (hxy : ∀ k, dot (u k) x = dot (u k) y) : x = y := by
  rw [h.complete x, h.complete y]
  unfold spectralApply
  exact Finset.sum_congr rfl fun i _ => by rw [hxy]

theorem spectral_comp {K : Vec α n →ₗ[α] Vec α n} {u : Fin n → Vec α n} {lam : Fin n → α} (h : EigenBasis K u lam)
    (f g : Fin n → α) (b : Vec α n) :
    spectralApply u f (spectralApply u g b) = spectralApply u (fun i => f i * g i) b := by
  unfold spectralApply
  exact Finset.sum_congr rfl fun i _ => by
    have := dot_spectral h g b i
    unfold spectralApply at this
    rw [this, mul_assoc]

/-- The shifted solve is determined by the eigen-decomposition: `(−K + sI) x = b`, `s ≠ λ_i` ⇒ `x = Σ ⟨u_i,b⟩/(s − λ_i) u_i`. -/
theorem shifted_solve_spectral {K : Vec α n →ₗ[α] Vec α n} {u : Fin n → Vec α n} {lam : Fin n → α}
    (h : EigenBasis K u lam) (sft : α) (hne : ∀ i, sft - lam i ≠ 0) (x b : Vec α n)
    (hx : -K x + sft • x = b) : x = spectralApply u (fun i => 1 / (sft - lam i)) b := by
  apply spectral_ext h
  intro k
  rw [dot_spectral h]
  have hKx : K x = spectralApply u (fun i => 1 * lam i) x := by
    conv_lhs => rw [h.complete x]
    exact K_spectral h _ x
  have hb : dot (u k) b = (sft - lam k) * dot (u k) x := by
    rw [← hx]
    have e : (-K x + sft • x) = fun j => (-1 : α) * K x j + sft * x j := by
      funext j; simp
    rw [e, dot_comm' , dot_add_mul, hKx, dot_comm' _ (u k), dot_spectral h, dot_comm' x]
    ring
  rw [hb]
  field_simp [hne k]
where
  dot_comm' (a b : Vec α n) : dot a b = dot b a := by
    simp only [dot_eq_sum]; exact Finset.sum_congr rfl fun i _ => mul_comm _ _
  dot_add_mul (c d : α) (a b w : Vec α n) : dot (fun j => c * a j + d * b j) w = c * dot a w + d * dot b w := by
    simp only [dot_eq_sum, add_mul, Finset.sum_add_distrib, Finset.mul_sum, mul_assoc]

/-! ### list sums of the model -/

theorem lsum_foldl (a : α) (l : List α) : l.foldl (· + ·) a = a + lsum l := by
  unfold lsum
  induction l generalizing a with
  | nil => simp
  | cons x l ih => simp only [List.foldl_cons]; rw [ih (a + x), ih (0 + x)]; ring

theorem lsum_cons (x : α) (l : List α) : lsum (x :: l) = x + lsum l := by
  show (x :: l).foldl (· + ·) 0 = _
  rw [List.foldl_cons, lsum_foldl]; ring

theorem lsum_nil : lsum ([] : List α) = 0 := rfl

theorem lsum_zipWith_sum {β γ : Type} (F : Fin n → β → γ → α) (ws : List β) (ss : List γ) :
    lsum (List.zipWith (fun w sh => ∑ i, F i w sh) ws ss) = ∑ i, lsum (List.zipWith (F i) ws ss) := by
  induction ws generalizing ss with
  | nil => simp [lsum_nil]
  | cons w ws ih =>
    cases ss with
    | nil => simp [lsum_nil]
    | cons sh ss =>
      simp only [List.zipWith_cons_cons, lsum_cons, ih, Finset.sum_add_distrib]

theorem lsum_zipWith_mul {β γ : Type} (c : α) (F : β → γ → α) (ws : List β) (ss : List γ) :
    lsum (List.zipWith (fun w sh => F w sh * c) ws ss) = lsum (List.zipWith F ws ss) * c := by
  induction ws generalizing ss with
  | nil => simp [lsum_nil]
  | cons w ws ih =>
    cases ss with
    | nil => simp [lsum_nil]
    | cons sh ss => simp only [List.zipWith_cons_cons, lsum_cons, ih]; ring

/-- **Reduction to the scalar rule** for a list of weights and shifts with exact shifted solves. -/
theorem weightedSum_spectral {K : Vec α n →ₗ[α] Vec α n} {u : Fin n → Vec α n} {lam : Fin n → α}
    (h : EigenBasis K u lam) (R : α → Vec α n → Vec α n) (ws ss : List α) (b : Vec α n)
    (hsolve : ∀ sh ∈ ss, -K (R sh b) + sh • R sh b = b) (hne : ∀ sh ∈ ss, ∀ i, sh - lam i ≠ 0) :
    weightedSum ws (ss.map fun sh => R sh b) =
      spectralApply u (fun i => lsum (List.zipWith (fun w sh => w / (sh - lam i)) ws ss)) b := by
  funext j
  unfold weightedSum
  rw [List.zipWith_map_right]
  have hR : ∀ sh ∈ ss, R sh b = spectralApply u (fun i => 1 / (sh - lam i)) b :=
    fun sh hs => shifted_solve_spectral h sh (hne sh hs) _ b (hsolve sh hs)
  have hz : List.zipWith (fun w sh => R sh b j * w) ws ss =
      List.zipWith (fun w sh => ∑ i, (w / (sh - lam i)) * (dot (u i) b * u i j)) ws ss := by
    induction ws generalizing ss with
    | nil => simp
    | cons w ws ih =>
      cases ss with
      | nil => simp
      | cons sh ss =>
        simp only [List.zipWith_cons_cons]
        rw [ih ss (fun x hx => hsolve x (List.mem_cons_of_mem _ hx)) (fun x hx => hne x (List.mem_cons_of_mem _ hx))
          (fun x hx => hR x (List.mem_cons_of_mem _ hx))]
        congr 1
        rw [hR sh (List.mem_cons_self ..)]
        unfold spectralApply
        simp only [Finset.sum_apply, Pi.smul_apply, smul_eq_mul, Finset.sum_mul]
        exact Finset.sum_congr rfl fun i _ => by ring
  rw [hz, lsum_zipWith_sum]
  unfold spectralApply
  simp only [Finset.sum_apply, Pi.smul_apply, smul_eq_mul]
  exact Finset.sum_congr rfl fun i _ => by rw [lsum_zipWith_mul]; ring

theorem weightedSum_nil_left (xs : List (Vec α n)) : weightedSum ([] : List α) xs = 0 := by
  funext i; simp [weightedSum, lsum_nil]

theorem weightedSum_nil_right (ws : List α) : weightedSum ws ([] : List (Vec α n)) = 0 := by
  funext i; simp [weightedSum, lsum_nil]

theorem weightedSum_cons (w : α) (ws : List α) (x : Vec α n) (xs : List (Vec α n)) :
    weightedSum (w :: ws) (x :: xs) = w • x + weightedSum ws xs := by
  funext i
  simp only [weightedSum, List.zipWith_cons_cons, lsum_cons, Pi.add_apply, Pi.smul_apply, smul_eq_mul]
  ring

/-- `(linear_op._matmul(solves) * weights).sum(0) = linear_op._matmul((solves * weights).sum(0))`. -/
theorem weightedSum_map_linear (K : Vec α n →ₗ[α] Vec α n) (ws : List α) (xs : List (Vec α n)) :
    weightedSum ws (xs.map K) = K (weightedSum ws xs) := by
  induction ws generalizing xs with
  | nil => rw [weightedSum_nil_left, weightedSum_nil_left, map_zero]
  | cons w ws ih =>
    cases xs with
    | nil => rw [List.map_nil, weightedSum_nil_right, map_zero]
    | cons x xs => rw [List.map_cons, weightedSum_cons, weightedSum_cons, ih, map_add, map_smul]

/-- With `ρ_i² λ_i = 1` the spectral map `ρ(K)` applied twice inverts `K`. -/
theorem spectral_twice_inverse {K : Vec α n →ₗ[α] Vec α n} {u : Fin n → Vec α n} {lam : Fin n → α}
    (h : EigenBasis K u lam) (ρ : Fin n → α) (hρ : ∀ i, ρ i * ρ i * lam i = 1) (b : Vec α n) :
    K (spectralApply u ρ (spectralApply u ρ b)) = b := by
  rw [spectral_comp h, K_spectral h]
  conv_rhs => rw [h.complete b]
  congr 1
  funext i
  exact hρ i

/-- Diagonal operator `v ↦ (λ_i v_i)_i`. -/
def diagMap (lam : Fin n → α) : Vec α n →ₗ[α] Vec α n where
  toFun v := fun i => lam i * v i
  map_add' u v := by funext i; simp [mul_add]
  map_smul' c v := by funext i; simp [mul_left_comm]

/-- The standard basis is an orthonormal eigenbasis of a diagonal operator (the hypotheses of `ciq_reduction` are satisfiable
for every size and every spectrum). -/
theorem eigenBasis_diag (lam : Fin n → α) : EigenBasis (diagMap lam) (fun i => Pi.single i 1) lam := by
  refine ⟨?_, ?_, ?_⟩
  · intro i; funext j
    simp only [diagMap, LinearMap.coe_mk, AddHom.coe_mk, Pi.smul_apply, smul_eq_mul, Pi.single_apply]
    by_cases h : j = i <;> simp [h]
  · intro i j
    rw [dot_eq_sum]
    simp only [Pi.single_apply, mul_ite, mul_one, mul_zero, Finset.sum_ite_eq', Finset.mem_univ, if_true]
    by_cases h : i = j <;> simp [h, eq_comm]
  · intro b; funext j
    simp only [spectralApply, Finset.sum_apply, Pi.smul_apply, smul_eq_mul, one_mul, dot_eq_sum, Pi.single_apply]
    simp [Finset.sum_ite_eq', Finset.sum_ite_eq]

end spectral
end LinOp.C11
