/-
C11 — global MINRES statements over the whole iteration: residual identity, scale product, breakdown step,
orthonormal frame `[p_1 … p_j, m_{j+1}]`, residual norm, optimality over the span of the search vectors.
-/
import LinOp.C11.ProofsMinres
import Mathlib.Data.Matrix.Mul
import Mathlib.Algebra.BigOperators.Intervals
import Mathlib.Algebra.Order.BigOperators.Ring.Finset
import Mathlib.Algebra.Order.Field.Basic
import Mathlib.Tactic.Linarith
import Mathlib.Tactic.Positivity

namespace LinOp.C11
open Function

section seq
variable {α : Type} [Field α] {n : Nat}

theorem dot_eq_dotProduct (u v : Vec α n) : dot u v = u ⬝ᵥ v := dot_eq_sum u v

/-- Track after `j` iterations. -/
def trk (N : NumOps α) (P : Params α) (s : Sys α n) (σ : α) (t0 : Lz α n × Gv α n) (j : Nat) : Lz α n × Gv α n :=
  (trackStep N P s σ)^[j] t0

theorem trk_succ (N : NumOps α) (P : Params α) (s : Sys α n) (σ : α) (t0 : Lz α n × Gv α n) (j : Nat) :
    trk N P s σ t0 (j + 1) = trackStep N P s σ (trk N P s σ t0 j) := iterate_succ_apply' _ _ _

/-- Ghost sequence `m_{j−1}` (zero before the first step). -/
def ghost (N : NumOps α) (P : Params α) (s : Sys α n) (σ : α) (t0 : Lz α n × Gv α n) : Nat → Vec α n
  | 0 => fun _ => 0
  | j + 1 => gM0 (trk N P s σ t0 j) (ghost N P s σ t0 j)

/-- `m_{j+1}`: the (unit, see `frame`) direction of the residual after `j` iterations. -/
def resDir (N : NumOps α) (P : Params α) (s : Sys α n) (σ : α) (t0 : Lz α n × Gv α n) (j : Nat) : Vec α n :=
  gM1 (trk N P s σ t0 j) (ghost N P s σ t0 j)

/-- `p_j = A_σ d_j` (`p_0 = 0`). -/
def imgDir (N : NumOps α) (P : Params α) (s : Sys α n) (σ : α) (t0 : Lz α n × Gv α n) (j : Nat) : Vec α n :=
  gP1 (trk N P s σ t0 j) (ghost N P s σ t0 j)

/-- Start of the loop for the normalised right-hand side `b`. -/
def track0 (N : NumOps α) (s : Sys α n) (b : Vec α n) : Lz α n × Gv α n :=
  (initLz N s b, initGv (initLz N s b).betaPrev)

theorem TrackInv.init (N : NumOps α) (s : Sys α n) (σ : α) (A pinv : Vec α n →ₗ[α] Vec α n)
    (hpre : ∀ v, pinv (s.pre v) = v) (b : Vec α n) (hb0 : (initLz N s b).betaPrev ≠ 0) :
    TrackInv A pinv σ b (track0 N s b) (fun _ => 0) := by
  have hz : (fun _ => 0 : Vec α n) = 0 := rfl
  have hq : (track0 N s b).1.q1 = ((initLz N s b).betaPrev)⁻¹ • s.pre b := by
    funext i
    simp only [track0, initLz, mem_eq, Pi.smul_apply, smul_eq_mul]
    rw [div_eq_inv_mul]
  have hz1 : (track0 N s b).1.z1 = ((initLz N s b).betaPrev)⁻¹ • b := by
    funext i
    simp only [track0, initLz, mem_eq, Pi.smul_apply, smul_eq_mul]
    rw [div_eq_inv_mul]
  refine ⟨?_, ?_, ?_, ?_, ?_, ?_⟩
  · simp [track0, initGv]
  · simp [track0, initGv]
  · rw [hq, map_smul, hpre, hz1]
  · intro i; simp [track0, initGv, initLz, gP0, hz]
  · intro i; simp [track0, initGv, initLz, gP1, gM0, hz]
  · intro i
    have : (track0 N s b).2.sol = 0 := rfl
    rw [this, map_zero, map_zero]
    simp only [gM1, gM0, hz1, Pi.smul_apply, smul_eq_mul]
    simp only [track0, initGv, Pi.zero_apply]
    field_simp
    ring

/-- All steps before `J` are regular. -/
def Regular (N : NumOps α) (P : Params α) (s : Sys α n) (σ : α) (t0 : Lz α n × Gv α n) (J : Nat) : Prop :=
  ∀ j, j < J → StepOK N P s σ (trk N P s σ t0 j)

/-- The invariant holds after every iteration count `j ≤ J`. -/
theorem trackInv_iter (N : NumOps α) (P : Params α) (s : Sys α n) (σ : α) (A pinv : Vec α n →ₗ[α] Vec α n)
    (hA : ∀ v, applyA P s v = A v) (hpre : ∀ v, pinv (s.pre v) = v) (b : Vec α n)
    (hb0 : (initLz N s b).betaPrev ≠ 0) (J : Nat) (hreg : Regular N P s σ (track0 N s b) J) (j : Nat) (hj : j ≤ J) :
    TrackInv A pinv σ b (trk N P s σ (track0 N s b) j) (ghost N P s σ (track0 N s b) j) := by
  induction j with
  | zero => exact TrackInv.init N s σ A pinv hpre b hb0
  | succ j ih =>
    rw [trk_succ]
    exact TrackInv.step N P s σ A pinv hA hpre b _ _ (ih (by omega)) (hreg j (by omega))

/-! ### recurrences of the named quantities (no hypothesis needed: they are the code) -/

variable (N : NumOps α) (P : Params α) (s : Sys α n) (σ : α) (t0 : Lz α n × Gv α n)

theorem scale_succ (j : Nat) : (trk N P s σ t0 (j + 1)).2.scalePrev =
    -((trk N P s σ t0 j).2.scalePrev * (trk N P s σ t0 (j + 1)).2.sin1) := by
  rw [trk_succ]; simp only [trackStep, givensStep]; ring

/-- `scale_prev` after `j` iterations is `(−1)^j · β₀ · s_1 ⋯ s_j`. -/
theorem scale_prod (j : Nat) : (trk N P s σ t0 j).2.scalePrev =
    (-1) ^ j * t0.2.scalePrev * ∏ i ∈ Finset.range j, (trk N P s σ t0 (i + 1)).2.sin1 := by
  induction j with
  | zero => simp [trk]
  | succ j ih => rw [scale_succ, ih, Finset.prod_range_succ, pow_succ]; ring

theorem sol_succ (j : Nat) (i : Fin n) : (trk N P s σ t0 (j + 1)).2.sol i = (trk N P s σ t0 j).2.sol i +
    ((trk N P s σ t0 j).2.scalePrev * (trk N P s σ t0 (j + 1)).2.cos1) * (trk N P s σ t0 (j + 1)).2.s1 i := by
  rw [trk_succ]; simp only [trackStep, givensStep, mem_eq]; ring

theorem resDir_zero : resDir N P s σ t0 0 = gM1 t0 (fun _ => 0) := rfl

theorem ghost_succ_succ (j : Nat) : gM0 (trk N P s σ t0 (j + 1)) (ghost N P s σ t0 (j + 1)) = resDir N P s σ t0 j := by
  rw [trk_succ]; rfl

theorem resDir_succ (j : Nat) (i : Fin n) : resDir N P s σ t0 (j + 1) i =
    -(trk N P s σ t0 (j + 1)).2.sin1 * resDir N P s σ t0 j i +
      (trk N P s σ t0 (j + 1)).2.cos1 * (trk N P s σ t0 (j + 1)).1.z1 i := by
  show gM1 _ _ i = _
  simp only [gM1, ghost_succ_succ]

theorem imgDir_succ (j : Nat) (i : Fin n) : imgDir N P s σ t0 (j + 1) i =
    (trk N P s σ t0 (j + 1)).2.cos1 * resDir N P s σ t0 j i +
      (trk N P s σ t0 (j + 1)).2.sin1 * (trk N P s σ t0 (j + 1)).1.z1 i := by
  show gP1 _ _ i = _
  simp only [gP1, ghost_succ_succ]

/-! ### the breakdown step (`minres_exact_at_dim`, eps-version) -/

/-- If the new Lanczos vector of iteration `j+1` is zero (Krylov space exhausted: `zvec_curr = 0` before the division by the
clamped `beta_curr`), then `m_{j+2} = −s_{j+1} m_{j+1}`. -/
theorem resDir_succ_of_breakdown (j : Nat) (hz : (trk N P s σ t0 (j + 1)).1.z1 = fun _ => 0) (i : Fin n) :
    resDir N P s σ t0 (j + 1) i = -(trk N P s σ t0 (j + 1)).2.sin1 * resDir N P s σ t0 j i := by
  rw [resDir_succ, hz]; ring

/-! ### orthonormal frame `[p_1 … p_j, m_{j+1}]` -/

theorem dot_lin_left (a b : α) (u v w : Vec α n) :
    dot (fun i => a * u i + b * v i) w = a * dot u w + b * dot v w := by
  simp only [dot_eq_sum, add_mul, Finset.sum_add_distrib, Finset.mul_sum, mul_assoc]

theorem dot_comm (u v : Vec α n) : dot u v = dot v u := by
  simp only [dot_eq_sum]; exact Finset.sum_congr rfl fun i _ => mul_comm _ _

theorem dot_lin_right (a b : α) (u v w : Vec α n) :
    dot w (fun i => a * u i + b * v i) = a * dot w u + b * dot w v := by
  rw [dot_comm, dot_lin_left, dot_comm u, dot_comm v]

/-- Orthonormality of the Lanczos vectors `z_0 … z_J` (`zvec_prev1` after `0 … J` iterations). -/
def LanczosOrthonormal (J : Nat) : Prop :=
  ∀ a b, a ≤ J → b ≤ J → dot (trk N P s σ t0 a).1.z1 (trk N P s σ t0 b).1.z1 = if a = b then 1 else 0

/-- Generic form of `frame` for a symmetric bilinear form `B` (e.g. `B u v = ⟨u, M⁻¹ v⟩` with a preconditioner): with
`B`-orthonormal Lanczos vectors, `m_{j+1}` is a `B`-unit vector `B`-orthogonal to every `p_i`, `i ≤ j`, and to all later Lanczos
vectors. -/
theorem frameB (B : Vec α n → Vec α n → α)
    (hBl : ∀ (a b : α) (u v w : Vec α n), B (fun i => a * u i + b * v i) w = a * B u w + b * B v w)
    (hBc : ∀ u v : Vec α n, B u v = B v u) (J : Nat)
    (horth : ∀ a b, a ≤ J → b ≤ J → B (trk N P s σ t0 a).1.z1 (trk N P s σ t0 b).1.z1 = if a = b then 1 else 0)
    (hrot : ∀ j, j ≤ J → (trk N P s σ t0 j).2.cos1 * (trk N P s σ t0 j).2.cos1 +
      (trk N P s σ t0 j).2.sin1 * (trk N P s σ t0 j).2.sin1 = 1)
    (hm0 : resDir N P s σ t0 0 = (trk N P s σ t0 0).1.z1) (hp0 : imgDir N P s σ t0 0 = fun _ => 0) (j : Nat) (hj : j ≤ J) :
    B (resDir N P s σ t0 j) (resDir N P s σ t0 j) = 1 ∧
    (∀ l, j < l → l ≤ J → B (resDir N P s σ t0 j) (trk N P s σ t0 l).1.z1 = 0) ∧
    (∀ i, i ≤ j → B (imgDir N P s σ t0 i) (resDir N P s σ t0 j) = 0) ∧
    (∀ i, i ≤ j → ∀ l, i < l → l ≤ J → B (imgDir N P s σ t0 i) (trk N P s σ t0 l).1.z1 = 0) := by
  have hBr : ∀ (a b : α) (u v w : Vec α n), B w (fun i => a * u i + b * v i) = a * B w u + b * B w v := by
    intro a b u v w; rw [hBc, hBl, hBc u, hBc v]
  have hB0 : ∀ v : Vec α n, B (fun _ => 0) v = 0 := by
    intro v
    have h := hBl 0 0 v v v
    simpa using h
  induction j with
  | zero =>
    refine ⟨?_, ?_, ?_, ?_⟩
    · rw [hm0, horth 0 0 (by omega) (by omega), if_pos rfl]
    · intro l hl hlJ
      rw [hm0, horth 0 l (by omega) hlJ, if_neg (by omega)]
    · intro i hi
      have : i = 0 := by omega
      subst this
      rw [hp0, hB0]
    · intro i hi l _ _
      have : i = 0 := by omega
      subst this
      rw [hp0, hB0]
  | succ j ih =>
    obtain ⟨f1, f2, f3, f4⟩ := ih (by omega)
    have hR : resDir N P s σ t0 (j + 1) = fun i => -(trk N P s σ t0 (j + 1)).2.sin1 * resDir N P s σ t0 j i +
        (trk N P s σ t0 (j + 1)).2.cos1 * (trk N P s σ t0 (j + 1)).1.z1 i := funext (resDir_succ N P s σ t0 j)
    have hP : imgDir N P s σ t0 (j + 1) = fun i => (trk N P s σ t0 (j + 1)).2.cos1 * resDir N P s σ t0 j i +
        (trk N P s σ t0 (j + 1)).2.sin1 * (trk N P s σ t0 (j + 1)).1.z1 i := funext (imgDir_succ N P s σ t0 j)
    have hmz : B (resDir N P s σ t0 j) (trk N P s σ t0 (j + 1)).1.z1 = 0 := f2 (j + 1) (by omega) hj
    have hzm : B (trk N P s σ t0 (j + 1)).1.z1 (resDir N P s σ t0 j) = 0 := by rw [hBc]; exact hmz
    have hzz : B (trk N P s σ t0 (j + 1)).1.z1 (trk N P s σ t0 (j + 1)).1.z1 = 1 := by
      rw [horth _ _ hj hj, if_pos rfl]
    have hr := hrot (j + 1) hj
    refine ⟨?_, ?_, ?_, ?_⟩
    · rw [hR, hBl, hBr, hBr, f1, hmz, hzm, hzz]
      linear_combination hr
    · intro l hl hlJ
      rw [hR, hBl, f2 l (by omega) hlJ, horth _ _ hj hlJ, if_neg (by omega)]
      ring
    · intro i hi
      rcases Nat.lt_or_ge i (j + 1) with h | h
      · rw [hR, hBr, f3 i (by omega), f4 i (by omega) (j + 1) h hj]; ring
      · have : i = j + 1 := by omega
        subst this
        rw [hP, hR, hBl, hBr, hBr, f1, hmz, hzm, hzz]
        ring
    · intro i hi l hil hlJ
      rcases Nat.lt_or_ge i (j + 1) with h | h
      · exact f4 i (by omega) l hil hlJ
      · have : i = j + 1 := by omega
        subst this
        rw [hP, hBl, f2 l (by omega) hlJ, horth _ _ hj hlJ, if_neg (by omega)]
        ring


/-- With orthonormal Lanczos vectors and orthogonal rotations, `m_{j+1}` is a unit vector orthogonal to every `p_i`, `i ≤ j`,
and to all later Lanczos vectors. -/
theorem frame (J : Nat) (horth : LanczosOrthonormal N P s σ t0 J)
    (hrot : ∀ j, j ≤ J → (trk N P s σ t0 j).2.cos1 * (trk N P s σ t0 j).2.cos1 +
      (trk N P s σ t0 j).2.sin1 * (trk N P s σ t0 j).2.sin1 = 1)
    (hm0 : resDir N P s σ t0 0 = (trk N P s σ t0 0).1.z1) (hp0 : imgDir N P s σ t0 0 = fun _ => 0) (j : Nat) (hj : j ≤ J) :
    dot (resDir N P s σ t0 j) (resDir N P s σ t0 j) = 1 ∧
    (∀ l, j < l → l ≤ J → dot (resDir N P s σ t0 j) (trk N P s σ t0 l).1.z1 = 0) ∧
    (∀ i, i ≤ j → dot (imgDir N P s σ t0 i) (resDir N P s σ t0 j) = 0) ∧
    (∀ i, i ≤ j → ∀ l, i < l → l ≤ J → dot (imgDir N P s σ t0 i) (trk N P s σ t0 l).1.z1 = 0) := by
  induction j with
  | zero =>
    refine ⟨?_, ?_, ?_, ?_⟩
    · rw [hm0, horth 0 0 (by omega) (by omega), if_pos rfl]
    · intro l hl hlJ
      rw [hm0, horth 0 l (by omega) hlJ, if_neg (by omega)]
    · intro i hi
      have : i = 0 := by omega
      subst this
      rw [hp0, dot_zero_left]
    · intro i hi l _ _
      have : i = 0 := by omega
      subst this
      rw [hp0, dot_zero_left]
  | succ j ih =>
    obtain ⟨f1, f2, f3, f4⟩ := ih (by omega)
    have hR : resDir N P s σ t0 (j + 1) = fun i => -(trk N P s σ t0 (j + 1)).2.sin1 * resDir N P s σ t0 j i +
        (trk N P s σ t0 (j + 1)).2.cos1 * (trk N P s σ t0 (j + 1)).1.z1 i := funext (resDir_succ N P s σ t0 j)
    have hP : imgDir N P s σ t0 (j + 1) = fun i => (trk N P s σ t0 (j + 1)).2.cos1 * resDir N P s σ t0 j i +
        (trk N P s σ t0 (j + 1)).2.sin1 * (trk N P s σ t0 (j + 1)).1.z1 i := funext (imgDir_succ N P s σ t0 j)
    have hmz : dot (resDir N P s σ t0 j) (trk N P s σ t0 (j + 1)).1.z1 = 0 := f2 (j + 1) (by omega) hj
    have hzm : dot (trk N P s σ t0 (j + 1)).1.z1 (resDir N P s σ t0 j) = 0 := by rw [dot_comm]; exact hmz
    have hzz : dot (trk N P s σ t0 (j + 1)).1.z1 (trk N P s σ t0 (j + 1)).1.z1 = 1 := by
      rw [horth _ _ hj hj, if_pos rfl]
    have hr := hrot (j + 1) hj
    refine ⟨?_, ?_, ?_, ?_⟩
    · rw [hR, dot_lin_left, dot_lin_right, dot_lin_right, f1, hmz, hzm, hzz]
      linear_combination hr
    · intro l hl hlJ
      rw [hR, dot_lin_left, f2 l (by omega) hlJ, horth _ _ hj hlJ, if_neg (by omega)]
      ring
    · intro i hi
      rcases Nat.lt_or_ge i (j + 1) with h | h
      · rw [hR, dot_lin_right, f3 i (by omega), f4 i (by omega) (j + 1) h hj]; ring
      · have : i = j + 1 := by omega
        subst this
        rw [hP, hR, dot_lin_left, dot_lin_right, dot_lin_right, f1, hmz, hzm, hzz]
        ring
    · intro i hi l hil hlJ
      rcases Nat.lt_or_ge i (j + 1) with h | h
      · exact f4 i (by omega) l hil hlJ
      · have : i = j + 1 := by omega
        subst this
        rw [hP, dot_lin_left, f2 l (by omega) hlJ, horth _ _ hj hlJ, if_neg (by omega)]
        ring

/-- `p_a`, `1 ≤ a ≤ J`, are orthonormal. -/
theorem frame_img (J : Nat) (horth : LanczosOrthonormal N P s σ t0 J)
    (hrot : ∀ j, j ≤ J → (trk N P s σ t0 j).2.cos1 * (trk N P s σ t0 j).2.cos1 +
      (trk N P s σ t0 j).2.sin1 * (trk N P s σ t0 j).2.sin1 = 1)
    (hm0 : resDir N P s σ t0 0 = (trk N P s σ t0 0).1.z1) (hp0 : imgDir N P s σ t0 0 = fun _ => 0)
    (a b : Nat) (hab : a ≤ b) (ha : 1 ≤ a) (hb : b ≤ J) :
    dot (imgDir N P s σ t0 a) (imgDir N P s σ t0 b) = if a = b then 1 else 0 := by
  obtain ⟨b', rfl⟩ : ∃ b', b = b' + 1 := ⟨b - 1, by omega⟩
  obtain ⟨f1, f2, f3, f4⟩ := frame N P s σ t0 J horth hrot hm0 hp0 b' (by omega)
  have hP : imgDir N P s σ t0 (b' + 1) = fun i => (trk N P s σ t0 (b' + 1)).2.cos1 * resDir N P s σ t0 b' i +
      (trk N P s σ t0 (b' + 1)).2.sin1 * (trk N P s σ t0 (b' + 1)).1.z1 i := funext (imgDir_succ N P s σ t0 b')
  rcases Nat.lt_or_ge a (b' + 1) with h | h
  · rw [if_neg (by omega), hP, dot_lin_right, f3 a (by omega), f4 a (by omega) (b' + 1) h hb]; ring
  · have : a = b' + 1 := by omega
    subst this
    have hmz : dot (resDir N P s σ t0 b') (trk N P s σ t0 (b' + 1)).1.z1 = 0 := f2 (b' + 1) (by omega) hb
    have hzm : dot (trk N P s σ t0 (b' + 1)).1.z1 (resDir N P s σ t0 b') = 0 := by rw [dot_comm]; exact hmz
    have hzz : dot (trk N P s σ t0 (b' + 1)).1.z1 (trk N P s σ t0 (b' + 1)).1.z1 = 1 := by
      rw [horth _ _ hb hb, if_pos rfl]
    rw [if_pos rfl, hP, dot_lin_left, dot_lin_right, dot_lin_right, f1, hmz, hzm, hzz]
    linear_combination hrot (b' + 1) hb

/-- `solution` after `j` iterations is `Σ_{k<j} τ_{k+1} d_{k+1}` with `τ_{k+1} = φ̄_k c_{k+1}`. -/
theorem sol_sum (h0 : t0.2.sol = fun _ => 0) (j : Nat) : (trk N P s σ t0 j).2.sol =
    ∑ k ∈ Finset.range j, ((trk N P s σ t0 k).2.scalePrev * (trk N P s σ t0 (k + 1)).2.cos1) •
      (trk N P s σ t0 (k + 1)).2.s1 := by
  induction j with
  | zero => rw [Finset.sum_range_zero]; exact h0
  | succ j ih =>
    rw [Finset.sum_range_succ, ← ih]
    funext i
    rw [sol_succ]; rfl

end seq

/-! ### least squares: pure linear algebra -/

section lsq
variable {α : Type} [Field α] {n : Nat}

/-- If `b − L x_j = φ m` with `m` a unit vector orthogonal to `p_k = L d_k` (`k < j`) and `x_j = Σ τ_k d_k`, then for every
other combination `x = Σ y_k d_k` the squared residual is `φ² + ‖Σ (τ_k − y_k) p_k‖²`. -/
theorem lsq_core (L : Vec α n →ₗ[α] Vec α n) (b xj m : Vec α n) (φ : α) (d p : Nat → Vec α n) (τ : Nat → α) (j : Nat)
    (hx : xj = ∑ k ∈ Finset.range j, τ k • d k) (hL : ∀ k, k < j → L (d k) = p k) (hres : b - L xj = φ • m)
    (hm : m ⬝ᵥ m = 1) (hpm : ∀ k, k < j → p k ⬝ᵥ m = 0) (y : Nat → α) :
    (b - L (∑ k ∈ Finset.range j, y k • d k)) ⬝ᵥ (b - L (∑ k ∈ Finset.range j, y k • d k)) =
      φ * φ + (∑ k ∈ Finset.range j, (τ k - y k) • p k) ⬝ᵥ (∑ k ∈ Finset.range j, (τ k - y k) • p k) := by
  have hLsum : ∀ c : Nat → α, L (∑ k ∈ Finset.range j, c k • d k) = ∑ k ∈ Finset.range j, c k • p k := by
    intro c
    rw [map_sum]
    exact Finset.sum_congr rfl fun k hk => by rw [map_smul, hL k (Finset.mem_range.mp hk)]
  have hdec : b - L (∑ k ∈ Finset.range j, y k • d k) = φ • m + ∑ k ∈ Finset.range j, (τ k - y k) • p k := by
    have h1 : b - L (∑ k ∈ Finset.range j, y k • d k) = (b - L xj) + (L xj - L (∑ k ∈ Finset.range j, y k • d k)) :=
      (sub_add_sub_cancel _ _ _).symm
    rw [h1, hres, hx, hLsum, hLsum, ← Finset.sum_sub_distrib]
    congr 1
    exact Finset.sum_congr rfl fun k _ => by rw [sub_smul]
  have hwm : (∑ k ∈ Finset.range j, (τ k - y k) • p k) ⬝ᵥ m = 0 := by
    rw [sum_dotProduct]
    exact Finset.sum_eq_zero fun k hk => by rw [smul_dotProduct, hpm k (Finset.mem_range.mp hk), smul_zero]
  have hmw : m ⬝ᵥ (∑ k ∈ Finset.range j, (τ k - y k) • p k) = 0 := by rw [dotProduct_comm]; exact hwm
  rw [hdec, add_dotProduct, dotProduct_add, dotProduct_add, smul_dotProduct, smul_dotProduct, dotProduct_smul,
    dotProduct_smul, hm, hwm, hmw]
  simp only [smul_eq_mul, mul_one, mul_zero, add_zero, zero_add]

end lsq
end LinOp.C11
