import LinOp.Core.Parse
import LinOp.C11.Model
import LinOp.Generated.C11Consts
/-!
Line-protocol driver for the C11 model, run on IEEE binary64 (`Float`).  Floats travel as their 64 bit
patterns in decimal (exact in both directions).

  `minres n eps zthr tol maxIter value K A_1 … A_K M_1 … M_K C col_1 … col_C`
      eps / zthr : bit pattern or `d` (generated literal of the source);  tol : bit pattern or `d`
      maxIter : natural or `d` (generated settings default);  value : bit pattern or `-` (None)
      A_k, M_k : matrices `r1c1,r1c2;…` of bit patterns (`-` for "no preconditioner")
      col_j : `k:rhs:shifts`
    → `iters=.. x=<col|col|…> (col = vec;vec;… one per shift) trace=<call|call|…> convs=<..> betas=<..> scales=<col|col|…>`
  `shape <shiftShape|none> <prodShape> <vec 0|1>` → `shape=<dims>`
  `ciq n nodes inverse shiftOffset pi lanczosEigs diag kp sn cn dn A M rhs tol maxIter`
    → `k2=<min/max> shifts=<..> weights=<..> noshift=<vec> solves=<vec;vec;…>`
  `rot k`  → buffers denoted by the rotating names after k executions of the (generated) rotation block
  `rotshift k` → buffers denoted by `zvec_*`, `prod`, `qvec_*` after k iterations (fresh `prod` / `qvec_curr` every iteration)
-/
open LinOp LinOp.C11 LinOp.Parse

instance : Zero Float := ⟨Float.ofNat 0⟩
instance : One Float := ⟨Float.ofNat 1⟩

def floatOps : NumOps Float := { sqrt := Float.sqrt, lt := fun a b => decide (a < b) }

def ratToFloat (r : Rat) : Float := Float.ofInt r.num / Float.ofNat r.den

def fbits? (s : String) : Option Float := s.toNat?.map fun k => Float.ofBits (UInt64.ofNat k)
def showF (x : Float) : String := toString x.toBits.toNat

def fvec? (s : String) : Option (Array Float) := (parseList? fbits? s).map List.toArray
def fmat? (s : String) : Option (Array (Array Float)) :=
  if s = "-" then some #[] else ((s.splitOn ";").mapM fvec?).map List.toArray

def vecOf (n : Nat) (a : Array Float) : Vec Float n := fun i => a[i.1]!

def matVec (n : Nat) (A : Array (Array Float)) (v : Vec Float n) : Vec Float n :=
  fun i => sumFin n fun j => (A[i.1]!)[j.1]! * v j

def showVec {n : Nat} (v : Vec Float n) : String := showList showF ((List.finRange n).map v)

def optF (dflt : Rat) (s : String) : Option Float := if s = "d" then some (ratToFloat dflt) else fbits? s
def optN (dflt : Nat) (s : String) : Option Nat := if s = "d" then some dflt else s.toNat?

def parseCol (n : Nat) (As Ms : Array (Array (Array Float))) (s : String) : Option (Sys Float n) :=
  match s.splitOn ":" with
  | [k, rhs, sh] => do
    let k ← k.toNat?
    let rhs ← fvec? rhs
    let sh ← fvec? sh
    let A := As[k]!
    let M := Ms[k]!
    -- default preconditioner: `lambda x: x.clone()`
    pure { amul := matVec n A, pre := if M.isEmpty then id else matVec n M, rhs := vecOf n rhs, shifts := sh.toList }
  | _ => none

def mkParams (eps zthr tol : Float) (mi : Nat) (value : Option Float) : Params Float :=
  { eps := eps, zeroThresh := zthr, tol := tol, maxIter := mi, checkEvery := Generated.C11.checkEvery,
    extraIters := Generated.C11.extraIters, sizeSlack := Generated.C11.sizeSlack, value := value }

def runMinres (args : List String) : String :=
  match args with
  | n :: eps :: zthr :: tol :: mi :: value :: k :: rest =>
    match n.toNat?, optF Generated.C11.eps eps, optF Generated.C11.zeroThresh zthr,
          optF Generated.C11.minresTolerance tol, optN Generated.C11.maxCgIterations mi, k.toNat? with
    | some n, some eps, some zthr, some tol, some mi, some k =>
      let value := if value = "-" then none else fbits? value
      match (rest.take k).mapM fmat?, ((rest.drop k).take k).mapM fmat? with
      | some As, some Ms =>
        match ((rest.drop (2 * k)).drop 1).mapM (parseCol n As.toArray Ms.toArray) with
        | some sys =>
          let o := minres floatOps (mkParams eps zthr tol mi value) sys
          let xs := "|".intercalate (o.x.map fun col => ";".intercalate (col.map showVec))
          let tr := "|".intercalate (o.amulTrace.map fun call => ";".intercalate (call.map showVec))
          let bs := "|".intercalate (o.betas.map (showList showF))
          let scs := "|".intercalate (o.scales.map (showList showF))
          s!"iters={o.iters} x={xs} trace={tr} convs={showList showF o.convs} betas={bs} scales={scs}"
        | none => "bad-cols"
      | _, _ => "bad-mats"
    | _, _, _, _, _, _ => "bad-args"
  | _ => "bad-line"

def runShape (args : List String) : String :=
  match args with
  | [sh, pr, vec] =>
    match (if sh = "none" then some none else (parseNats? sh).map some), parseNats? pr with
    | some sh, some pr => "shape=" ++ showList toString (outShape sh pr (vec = "1"))
    | _, _ => "bad-shape"
  | _ => "bad-line"

def runCiq (args : List String) : String :=
  match args with
  | [n, nodes, inv, off, pi, eigs, diag, kp, sn, cn, dn, A, M, rhs, tol, mi] =>
    match n.toNat?, nodes.toNat?, fbits? off, fbits? pi, fvec? eigs, fvec? diag, fbits? kp with
    | some n, some nodes, some off, some pi, some eigs, some diag, some kp =>
      match fvec? sn, fvec? cn, fvec? dn, fmat? A, fmat? M, fvec? rhs, optF Generated.C11.minresTolerance tol,
            optN Generated.C11.maxCgIterations mi with
      | some sn, some cn, some dn, some A, some M, some rhs, some tol, some mi =>
        let (mn, mx) := eigEstimate floatOps eigs.toList diag.toList
        let e : Ellip Float := { kp := kp, sn := sn.toList, cn := cn.toList, dn := dn.toList, minEig := mn, pi := pi,
                                 nNodes := Float.ofNat nodes }
        let P := mkParams (ratToFloat Generated.C11.eps) (ratToFloat Generated.C11.zeroThresh) tol mi
                   (some (ratToFloat Generated.C11.ciqValue))
        let pre : Vec Float n → Vec Float n := if M.isEmpty then id else matVec n M
        let solver : List Float → Vec Float n → List (Vec Float n) := fun shifts b =>
          ((minres floatOps P [{ amul := matVec n A, pre := pre, rhs := b, shifts := shifts }]).x.headD [])
        let o := ciq floatOps solver (matVec n A) e off (inv = "1") (vecOf n rhs)
        s!"k2={showF (mn / mx)} shifts={showList showF o.shifts} weights={showList showF o.weights} noshift={showVec o.noShift} solves={";".intercalate (o.solves.map showVec)}"
      | _, _, _, _, _, _, _, _ => "bad-args2"
    | _, _, _, _, _, _, _ => "bad-args"
  | _ => "bad-line"

def runRot (args : List String) : String :=
  match args with
  | [k] =>
    match k.toNat? with
    | some k =>
      let names := Generated.C11.rotNames
      let e := rotateN Generated.C11.rotation k (env0 names)
      "rot=" ++ ",".intercalate (names.map fun x => x ++ ":" ++ toString (e.get x))
    | none => "bad-args"
  | _ => "bad-line"

def runRotShift (args : List String) : String :=
  match args with
  | [k] =>
    match k.toNat? with
    | some k =>
      let st := allocN Generated.C11.rotShift shiftFresh k (env0 shiftNames, shiftNames.length)
      "rotshift=" ++ ",".intercalate (shiftNames.map fun x => x ++ ":" ++ toString (st.1.get x)) ++ s!" next={st.2}"
    | none => "bad-args"
  | _ => "bad-line"

def runLine (line : String) : String :=
  match words line with
  | "minres" :: rest => runMinres rest
  | "shape" :: rest => runShape rest
  | "ciq" :: rest => runCiq rest
  | "rot" :: rest => runRot rest
  | "rotshift" :: rest => runRotShift rest
  | _ => "bad-line"

def main : IO Unit := do
  let h ← IO.getStdin
  loop h () fun s line => (s, runLine line)
