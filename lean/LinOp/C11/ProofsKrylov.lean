/-
C11 — the span of the search vectors contains the Krylov space:
`span{b, Ab, …, A^{j−1}b} ≤ span{z_0 … z_{j−1}} ≤ span{d_1 … d_j}` (no preconditioner, regular steps).
-/
import LinOp.C11.ProofsLanczos
import Mathlib.LinearAlgebra.Span.Basic

namespace LinOp.C11
open Function

section fam
variable {α : Type} [Field α] {n : Nat}

/-- Span of the first `j` members of a sequence of vectors. -/
def famSpan (v : Nat → Vec α n) (j : Nat) : Submodule α (Vec α n) := Submodule.span α {x | ∃ k, k < j ∧ x = v k}

theorem mem_famSpan (v : Nat → Vec α n) {k j : Nat} (h : k < j) : v k ∈ famSpan v j :=
  Submodule.subset_span ⟨k, h, rfl⟩

theorem famSpan_mono (v : Nat → Vec α n) {j j' : Nat} (h : j ≤ j') : famSpan v j ≤ famSpan v j' :=
  Submodule.span_mono fun _ ⟨k, hk, e⟩ => ⟨k, by omega, e⟩

theorem famSpan_le (v : Nat → Vec α n) (j : Nat) (S : Submodule α (Vec α n)) (h : ∀ k, k < j → v k ∈ S) :
    famSpan v j ≤ S :=
  Submodule.span_le.mpr fun _ ⟨k, hk, e⟩ => e ▸ h k hk

/-- Every element of the span is an explicit combination. -/
theorem exists_coeff (v : Nat → Vec α n) (j : Nat) (x : Vec α n) (hx : x ∈ famSpan v j) :
    ∃ y : Nat → α, x = ∑ k ∈ Finset.range j, y k • v k := by
  unfold famSpan at hx
  induction hx using Submodule.span_induction with
  | mem x h =>
    obtain ⟨k, hk, rfl⟩ := h
    refine ⟨fun i => if i = k then 1 else 0, ?_⟩
    simp only [ite_smul, one_smul, zero_smul]
    rw [Finset.sum_ite_eq' (Finset.range j) k]
    simp [hk]
  | zero => exact ⟨fun _ => 0, by simp⟩
  | add x y _ _ hx hy =>
    obtain ⟨a, rfl⟩ := hx
    obtain ⟨c, rfl⟩ := hy
    exact ⟨fun k => a k + c k, by simp only [add_smul, Finset.sum_add_distrib]⟩
  | smul r x _ hx =>
    obtain ⟨a, rfl⟩ := hx
    exact ⟨fun k => r * a k, by simp only [Finset.smul_sum, smul_smul]⟩

end fam

section model
variable {α : Type} [Field α] {n : Nat}
variable (N : NumOps α) (P : Params α) (s : Sys α n) (σ : α)

theorem s2_eq (b : Vec α n) (k : Nat) : (trk N P s σ (track0 N s b) k).2.s2 =
    if k = 0 then 0 else (trk N P s σ (track0 N s b) (k - 1)).2.s1 := by
  cases k with
  | zero => rfl
  | succ k => rw [trk_succ]; rfl

theorem s1_zero (b : Vec α n) : (trk N P s σ (track0 N s b) 0).2.s1 = 0 := rfl

/-- Column `k` of `Q = D R`. -/
theorem z_col (hpre : ∀ v, s.pre v = v) (b : Vec α n) (k : Nat)
    (hok : StepOK N P s σ (trk N P s σ (track0 N s b) k)) :
    ∃ c0 c1 c2 : α, (trk N P s σ (track0 N s b) k).1.z1 =
      c0 • (trk N P s σ (track0 N s b) (k + 1)).2.s1 + c1 • (trk N P s σ (track0 N s b) k).2.s1 +
        c2 • (trk N P s σ (track0 N s b) k).2.s2 := by
  obtain ⟨hbc, hrad, hr0⟩ := hok
  set t := trk N P s σ (track0 N s b) k with ht
  set o := lanczosStep N P s t.1
  set r := rotTerms N σ o.alpha t.1.betaPrev o.betaCurr t.2
  have hd : r.diag ≠ 0 := by
    have hc : r.cosc = r.diag0 / r.radius := rfl
    have hs : r.sinc = o.betaCurr / r.radius := rfl
    have hdd : r.diag = r.diag0 * r.cosc + r.sinc * o.betaCurr := rfl
    have : r.diag = r.radius := by rw [hdd, hc, hs]; field_simp; linear_combination -hrad
    rw [this]; exact hr0
  refine ⟨r.diag, r.sub, r.subsub, ?_⟩
  funext i
  have e : (trk N P s σ (track0 N s b) (k + 1)).2.s1 i =
      (t.1.q1 i - r.sub * t.2.s1 i - r.subsub * t.2.s2 i) / r.diag := by
    rw [trk_succ]; simp only [trackStep, givensStep, mem_eq]; rfl
  simp only [Pi.add_apply, Pi.smul_apply, smul_eq_mul, e]
  rw [← q1_eq_z1 N P s σ hpre b k]
  field_simp
  ring

/-- Lanczos three-term relation in vector form. -/
theorem three_term_vec (A : Vec α n →ₗ[α] Vec α n) (hA : ∀ v, applyA P s v = A v) (hpre : ∀ v, s.pre v = v)
    (b : Vec α n) (k : Nat) (hok : StepOK N P s σ (trk N P s σ (track0 N s b) k)) :
    A (trk N P s σ (track0 N s b) k).1.z1 =
      (lanczosStep N P s (trk N P s σ (track0 N s b) k).1).alpha • (trk N P s σ (track0 N s b) k).1.z1 +
      (trk N P s σ (track0 N s b) k).1.betaPrev •
        (if k = 0 then 0 else (trk N P s σ (track0 N s b) (k - 1)).1.z1) +
      (trk N P s σ (track0 N s b) (k + 1)).1.betaPrev • (trk N P s σ (track0 N s b) (k + 1)).1.z1 := by
  have hbc := hok.1
  funext i
  have h3 := lanczos_three_term N P s (trk N P s σ (track0 N s b) k).1 hbc i
  rw [hA, q1_eq_z1 N P s σ hpre b k, z2_eq N P s σ b k] at h3
  have e1 : (trk N P s σ (track0 N s b) (k + 1)).1.betaPrev =
      (lanczosStep N P s (trk N P s σ (track0 N s b) k).1).betaCurr := by rw [trk_succ]; rfl
  have e2 : (trk N P s σ (track0 N s b) (k + 1)).1.z1 =
      (lanczosStep N P s (trk N P s σ (track0 N s b) k).1).zc := by rw [trk_succ]; rfl
  simp only [Pi.add_apply, Pi.smul_apply, smul_eq_mul, e1, e2]
  rw [h3]

/-- `span{z_0 … z_{j−1}} ≤ span{d_1 … d_j}` for `j ≤ J`. -/
theorem zspan_le_dspan (hpre : ∀ v, s.pre v = v) (b : Vec α n) (J : Nat)
    (hreg : Regular N P s σ (track0 N s b) J) (j : Nat) (hj : j ≤ J) :
    famSpan (fun k => (trk N P s σ (track0 N s b) k).1.z1) j ≤
      famSpan (fun k => (trk N P s σ (track0 N s b) (k + 1)).2.s1) j := by
  apply famSpan_le
  intro k hk
  obtain ⟨c0, c1, c2, e⟩ := z_col N P s σ hpre b k (hreg k (by omega))
  show (trk N P s σ (track0 N s b) k).1.z1 ∈ _
  rw [e]
  set Dn : Nat → Vec α n := fun k => (trk N P s σ (track0 N s b) (k + 1)).2.s1 with hDn
  have hD : ∀ m, m ≤ k + 1 → (trk N P s σ (track0 N s b) m).2.s1 ∈ famSpan Dn j := by
    intro m hm
    cases m with
    | zero => rw [s1_zero]; exact Submodule.zero_mem _
    | succ m => exact mem_famSpan Dn (k := m) (by omega)
  refine Submodule.add_mem _ (Submodule.add_mem _ (Submodule.smul_mem _ _ (hD (k + 1) (le_refl _)))
    (Submodule.smul_mem _ _ (hD k (by omega)))) (Submodule.smul_mem _ _ ?_)
  rw [s2_eq]
  by_cases hk0 : k = 0
  · simp [hk0]
  · simp only [hk0, if_false]; exact hD (k - 1) (by omega)

/-- `A^i b ∈ span{z_0 … z_i}` for `i ≤ J`. -/
theorem krylov_mem_zspan (A : Vec α n →ₗ[α] Vec α n) (hA : ∀ v, applyA P s v = A v) (hpre : ∀ v, s.pre v = v)
    (b : Vec α n) (hb0 : (initLz N s b).betaPrev ≠ 0) (J : Nat) (hreg : Regular N P s σ (track0 N s b) J) (i : Nat)
    (hi : i ≤ J) : (A ^ i) b ∈ famSpan (fun k => (trk N P s σ (track0 N s b) k).1.z1) (i + 1) := by
  set Z : Nat → Vec α n := fun k => (trk N P s σ (track0 N s b) k).1.z1 with hZ
  induction i with
  | zero =>
    have hz : b = (initLz N s b).betaPrev • Z 0 := by
      funext j
      have hb0' : N.sqrt (dot b (s.pre b)) ≠ 0 := by simpa [initLz] using hb0
      simp only [hZ, trk, track0, initLz, mem_eq, Pi.smul_apply, smul_eq_mul, Function.iterate_zero, id]
      field_simp
    have hmem : (initLz N s b).betaPrev • Z 0 ∈ famSpan Z (0 + 1) :=
      Submodule.smul_mem _ _ (mem_famSpan Z (by omega))
    rw [pow_zero, Module.End.one_apply]
    rw [← hz] at hmem
    exact hmem
  | succ i ih =>
    have hmem := ih (by omega)
    rw [pow_succ', Module.End.mul_apply]
    have hmap : famSpan Z (i + 1) ≤ (famSpan Z (i + 1 + 1)).comap A := by
      apply famSpan_le
      intro k hk
      show A (Z k) ∈ famSpan Z (i + 1 + 1)
      rw [three_term_vec N P s σ A hA hpre b k (hreg k (by omega))]
      refine Submodule.add_mem _ (Submodule.add_mem _ (Submodule.smul_mem _ _ (mem_famSpan Z (by omega)))
        (Submodule.smul_mem _ _ ?_)) (Submodule.smul_mem _ _ (mem_famSpan Z (k := k + 1) (by omega)))
      by_cases hk0 : k = 0
      · simp [hk0]
      · simp only [hk0, if_false]; exact mem_famSpan Z (k := k - 1) (by omega)
    exact hmap hmem

/-- **Krylov space ⊆ span of the search vectors**, `j ≤ J`. -/
theorem krylov_le_dspan (A : Vec α n →ₗ[α] Vec α n) (hA : ∀ v, applyA P s v = A v) (hpre : ∀ v, s.pre v = v)
    (b : Vec α n) (hb0 : (initLz N s b).betaPrev ≠ 0) (J : Nat) (hreg : Regular N P s σ (track0 N s b) J) (j : Nat)
    (hj : j ≤ J) :
    famSpan (fun i => (A ^ i) b) j ≤ famSpan (fun k => (trk N P s σ (track0 N s b) (k + 1)).2.s1) j := by
  refine le_trans ?_ (zspan_le_dspan N P s σ hpre b J hreg j hj)
  apply famSpan_le
  intro i hi
  exact famSpan_mono _ (by omega) (krylov_mem_zspan N P s σ A hA hpre b hb0 J hreg i (by omega))

/-- `z_k ∈ span{b, …, A^k b}` for `k ≤ J`. -/
theorem z_mem_krylov (A : Vec α n →ₗ[α] Vec α n) (hA : ∀ v, applyA P s v = A v) (hpre : ∀ v, s.pre v = v)
    (b : Vec α n) (hb0 : (initLz N s b).betaPrev ≠ 0) (J : Nat) (hreg : Regular N P s σ (track0 N s b) J) (k : Nat)
    (hk : k ≤ J) : (trk N P s σ (track0 N s b) k).1.z1 ∈ famSpan (fun i => (A ^ i) b) (k + 1) := by
  set Kv : Nat → Vec α n := fun i => (A ^ i) b with hKv
  have hmapK : ∀ m, famSpan Kv m ≤ (famSpan Kv (m + 1)).comap A := by
    intro m
    apply famSpan_le
    intro i hi
    show A ((A ^ i) b) ∈ famSpan Kv (m + 1)
    rw [← Module.End.mul_apply, ← pow_succ']
    exact mem_famSpan Kv (k := i + 1) (by omega)
  induction k using Nat.strong_induction_on with
  | _ k ih =>
    cases k with
    | zero =>
      have hb0' : N.sqrt (dot b (s.pre b)) ≠ 0 := by simpa [initLz] using hb0
      have hz : (trk N P s σ (track0 N s b) 0).1.z1 = ((initLz N s b).betaPrev)⁻¹ • Kv 0 := by
        funext j
        simp only [hKv, trk, track0, initLz, mem_eq, Pi.smul_apply, smul_eq_mul, Function.iterate_zero, id, pow_zero,
          Module.End.one_apply]
        field_simp
      rw [hz]
      exact Submodule.smul_mem _ _ (mem_famSpan Kv (by omega))
    | succ k =>
      have hok := hreg k (by omega)
      have h3 := three_term_vec N P s σ A hA hpre b k hok
      have hbne : (trk N P s σ (track0 N s b) (k + 1)).1.betaPrev ≠ 0 := by
        have e1 : (trk N P s σ (track0 N s b) (k + 1)).1.betaPrev =
            (lanczosStep N P s (trk N P s σ (track0 N s b) k).1).betaCurr := by rw [trk_succ]; rfl
        rw [e1]; exact hok.1
      have hsolve : (trk N P s σ (track0 N s b) (k + 1)).1.z1 =
          ((trk N P s σ (track0 N s b) (k + 1)).1.betaPrev)⁻¹ • (A (trk N P s σ (track0 N s b) k).1.z1 -
            (lanczosStep N P s (trk N P s σ (track0 N s b) k).1).alpha • (trk N P s σ (track0 N s b) k).1.z1 -
            (trk N P s σ (track0 N s b) k).1.betaPrev •
              (if k = 0 then 0 else (trk N P s σ (track0 N s b) (k - 1)).1.z1)) := by
        have hw : A (trk N P s σ (track0 N s b) k).1.z1 -
            (lanczosStep N P s (trk N P s σ (track0 N s b) k).1).alpha • (trk N P s σ (track0 N s b) k).1.z1 -
            (trk N P s σ (track0 N s b) k).1.betaPrev •
              (if k = 0 then 0 else (trk N P s σ (track0 N s b) (k - 1)).1.z1) =
            (trk N P s σ (track0 N s b) (k + 1)).1.betaPrev • (trk N P s σ (track0 N s b) (k + 1)).1.z1 := by
          rw [h3]; abel
        rw [hw, smul_smul, inv_mul_cancel₀ hbne, one_smul]
      rw [hsolve]
      have hzk := ih k (by omega) (by omega)
      refine Submodule.smul_mem _ _ (Submodule.sub_mem _ (Submodule.sub_mem _ (hmapK (k + 1) hzk)
        (Submodule.smul_mem _ _ (famSpan_mono Kv (by omega) hzk))) (Submodule.smul_mem _ _ ?_))
      by_cases hk0 : k = 0
      · simp [hk0]
      · simp only [hk0, if_false]
        exact famSpan_mono Kv (by omega) (ih (k - 1) (by omega) (by omega))

/-- `d_m ∈ span{z_0 … z_{m−1}}` for `m ≤ J`. -/
theorem d_mem_zspan (hpre : ∀ v, s.pre v = v) (b : Vec α n) (J : Nat) (hreg : Regular N P s σ (track0 N s b) J)
    (m : Nat) (hm : m ≤ J) :
    (trk N P s σ (track0 N s b) m).2.s1 ∈ famSpan (fun k => (trk N P s σ (track0 N s b) k).1.z1) m := by
  set Z : Nat → Vec α n := fun k => (trk N P s σ (track0 N s b) k).1.z1 with hZ
  induction m using Nat.strong_induction_on with
  | _ m ih =>
    cases m with
    | zero => rw [s1_zero]; exact Submodule.zero_mem _
    | succ k =>
      obtain ⟨hbc, hrad, hr0⟩ := hreg k (by omega)
      set t := trk N P s σ (track0 N s b) k with ht
      set o := lanczosStep N P s t.1
      set r := rotTerms N σ o.alpha t.1.betaPrev o.betaCurr t.2
      have e : (trk N P s σ (track0 N s b) (k + 1)).2.s1 =
          r.diag⁻¹ • (t.1.q1 - r.sub • t.2.s1 - r.subsub • t.2.s2) := by
        rw [trk_succ]; funext i
        simp only [trackStep, givensStep, mem_eq, Pi.smul_apply, Pi.sub_apply, smul_eq_mul]
        rw [div_eq_inv_mul]
      rw [e, q1_eq_z1 N P s σ hpre b k]
      refine Submodule.smul_mem _ _ (Submodule.sub_mem _ (Submodule.sub_mem _ (mem_famSpan Z (by omega))
        (Submodule.smul_mem _ _ (famSpan_mono Z (by omega) (ih k (by omega) (by omega))))) (Submodule.smul_mem _ _ ?_))
      rw [s2_eq]
      by_cases hk0 : k = 0
      · simp [hk0]
      · simp only [hk0, if_false]
        exact famSpan_mono Z (by omega) (ih (k - 1) (by omega) (by omega))

/-- **The model's iterate lies in the Krylov space**: `x_j ∈ span{b, Ab, …, A^{j−1}b}`, `j ≤ J`. -/
theorem sol_mem_krylov (A : Vec α n →ₗ[α] Vec α n) (hA : ∀ v, applyA P s v = A v) (hpre : ∀ v, s.pre v = v)
    (b : Vec α n) (hb0 : (initLz N s b).betaPrev ≠ 0) (J : Nat) (hreg : Regular N P s σ (track0 N s b) J) (j : Nat)
    (hj : j ≤ J) : (trk N P s σ (track0 N s b) j).2.sol ∈ famSpan (fun i => (A ^ i) b) j := by
  rw [sol_sum N P s σ (track0 N s b) rfl j]
  refine Submodule.sum_mem _ fun k hk => Submodule.smul_mem _ _ ?_
  have hk' : k < j := Finset.mem_range.mp hk
  have h1 := d_mem_zspan N P s σ hpre b J hreg (k + 1) (by omega)
  have h2 : famSpan (fun k => (trk N P s σ (track0 N s b) k).1.z1) (k + 1) ≤ famSpan (fun i => (A ^ i) b) j := by
    apply famSpan_le
    intro i hi
    exact famSpan_mono _ (by omega) (z_mem_krylov N P s σ A hA hpre b hb0 J hreg i (by omega))
  exact h2 h1

end model
end LinOp.C11
