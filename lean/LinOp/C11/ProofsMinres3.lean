/-
C11 — exact arithmetic (`ExactOps`: `<` is the order of an ordered field, `sqrt` is exact on non-negatives) makes every
step regular (the clamp keeps `beta_curr ≥ eps > 0`); the model's `minres` output is the track state after `iters` steps.
-/
import LinOp.C11.ProofsMinres2

namespace LinOp.C11
open Function

section exact
variable {α : Type} [Field α] [LinearOrder α] [IsStrictOrderedRing α] {n : Nat}

/-- Exact real arithmetic for the two non-ring primitives. -/
structure ExactOps (N : NumOps α) : Prop where
  lt_iff : ∀ a b, N.lt a b = decide (a < b)
  sqrt_sq : ∀ x, 0 ≤ x → N.sqrt x * N.sqrt x = x
  sqrt_nonneg : ∀ x, 0 ≤ N.sqrt x

omit [IsStrictOrderedRing α] in
theorem clampMin_ge (N : NumOps α) (hN : ExactOps N) (x e : α) : e ≤ clampMin N x e := by
  unfold clampMin
  rw [hN.lt_iff]
  by_cases h : x < e
  · simp [h]
  · simp only [h, decide_false, Bool.false_eq_true, if_false]; exact not_lt.mp h

omit [IsStrictOrderedRing α] in
theorem clampMin_of_lt (N : NumOps α) (hN : ExactOps N) (x e : α) (h : x < e) : clampMin N x e = e := by
  unfold clampMin; rw [hN.lt_iff]; simp [h]

omit [IsStrictOrderedRing α] in
theorem clampMin_of_ge (N : NumOps α) (hN : ExactOps N) (x e : α) (h : e ≤ x) : clampMin N x e = x := by
  unfold clampMin; rw [hN.lt_iff]; simp [not_lt.mpr h]

omit [IsStrictOrderedRing α] in
theorem betaCurr_ge_eps (N : NumOps α) (hN : ExactOps N) (P : Params α) (s : Sys α n) (l : Lz α n) :
    P.eps ≤ (lanczosStep N P s l).betaCurr := by
  simp only [lanczosStep]; exact clampMin_ge N hN _ _

/-- In exact arithmetic with `eps > 0` every step is regular, whatever the state. -/
theorem stepOK_of_exact (N : NumOps α) (hN : ExactOps N) (P : Params α) (heps : 0 < P.eps) (s : Sys α n) (σ : α)
    (t : Lz α n × Gv α n) : StepOK N P s σ t := by
  have hb : 0 < (lanczosStep N P s t.1).betaCurr := lt_of_lt_of_le heps (betaCurr_ge_eps N hN P s t.1)
  set o := lanczosStep N P s t.1
  set r := rotTerms N σ o.alpha t.1.betaPrev o.betaCurr t.2
  have hrad : r.radius = N.sqrt (r.diag0 * r.diag0 + o.betaCurr * o.betaCurr) := rfl
  have hpos : 0 < r.diag0 * r.diag0 + o.betaCurr * o.betaCurr := by
    have := mul_self_nonneg r.diag0
    have := mul_pos hb hb
    linarith
  have hsq := hN.sqrt_sq _ (le_of_lt hpos)
  refine ⟨ne_of_gt hb, ?_, ?_⟩
  · rw [hrad]; exact hsq
  · intro h0
    rw [hrad] at h0
    rw [h0, mul_zero] at hsq
    exact absurd hsq (ne_of_lt hpos)

theorem regular_of_exact (N : NumOps α) (hN : ExactOps N) (P : Params α) (heps : 0 < P.eps) (s : Sys α n) (σ : α)
    (t0 : Lz α n × Gv α n) (J : Nat) : Regular N P s σ t0 J :=
  fun _ _ => stepOK_of_exact N hN P heps s σ _

theorem sqrt_zero_of_exact (N : NumOps α) (hN : ExactOps N) : N.sqrt 0 = 0 := by
  have := hN.sqrt_sq 0 (le_refl _)
  exact mul_self_eq_zero.mp this

end exact

/-! ### the model's `minres` output in terms of tracks -/

section out
variable {α : Type} [Field α] {n : Nat}

/-- **Output = track state.**  For column `m` (system `s`) and shift number `k` (value `σ`), the vector returned by the
model's `minres` is the un-normalised, masked `solution` of the track of `(s, σ)` after `iters` iterations, and
`iters ≤ nIter`. -/
theorem minres_output_track (N : NumOps α) (P : Params α) (sys : List (Sys α n)) (m k : Nat) (s : Sys α n) (σ : α)
    (hs : sys[m]? = some s) (hσ : s.shifts[k]? = some σ) :
    (minres N P sys).iters ≤ nIter P n ∧
    ∃ col, (minres N P sys).x[m]? = some col ∧
      col[k]? = some (fun i => (if (prep N P s).isZero then 0
        else (trk N P s σ (track0 N s (prep N P s).b) (minres N P sys).iters).2.sol i) * (prep N P s).nrm) := by
  obtain ⟨J, hJ, hit, hcs⟩ := iterate_cs N P sys (nIter P n) 0
    { cs := List.zipWith (initCol N) sys (sys.map (prep N P)), iters := 0, trace := [], convs := [], betas := [] }
  have hiters : (minres N P sys).iters = J := by
    simp only [minres]; rw [hit]; simp
  have hc0 : (List.zipWith (initCol N) sys (sys.map (prep N P)))[m]? = some (initCol N s (prep N P s)) := by
    simp only [List.getElem?_zipWith, List.getElem?_map, hs, Option.map_some]
  have hcol := hcs m s _ hs hc0
  have hg0 : (initCol N s (prep N P s)).gs[k]? = some (initGv (initLz N s (prep N P s).b).betaPrev) := by
    simp only [initCol, List.getElem?_map, hσ, Option.map_some]
  obtain ⟨hgs, _⟩ := colStep_iter_get N P s J (initCol N s (prep N P s)) k σ _ hσ hg0
  refine ⟨by rw [hiters]; exact hJ,
    finishCol (prep N P s) ((colStep N P s)^[J] (initCol N s (prep N P s))), ?_, ?_⟩
  · simp only [minres, List.getElem?_zipWith, List.getElem?_map, hs, Option.map_some, hcol]
  · simp only [finishCol, List.getElem?_map, hgs, Option.map_some, mem_eq, hiters]
    rfl

/-- The `scales` output of the model is `scale_prev · rhs_norm` of the track after `iters` iterations. -/
theorem minres_output_scale (N : NumOps α) (P : Params α) (sys : List (Sys α n)) (m k : Nat) (s : Sys α n) (σ : α)
    (hs : sys[m]? = some s) (hσ : s.shifts[k]? = some σ) :
    ∃ col, (minres N P sys).scales[m]? = some col ∧
      col[k]? = some ((trk N P s σ (track0 N s (prep N P s).b) (minres N P sys).iters).2.scalePrev * (prep N P s).nrm) := by
  obtain ⟨J, hJ, hit, hcs⟩ := iterate_cs N P sys (nIter P n) 0
    { cs := List.zipWith (initCol N) sys (sys.map (prep N P)), iters := 0, trace := [], convs := [], betas := [] }
  have hiters : (minres N P sys).iters = J := by
    simp only [minres]; rw [hit]; simp
  have hc0 : (List.zipWith (initCol N) sys (sys.map (prep N P)))[m]? = some (initCol N s (prep N P s)) := by
    simp only [List.getElem?_zipWith, List.getElem?_map, hs, Option.map_some]
  have hcol := hcs m s _ hs hc0
  have hg0 : (initCol N s (prep N P s)).gs[k]? = some (initGv (initLz N s (prep N P s).b).betaPrev) := by
    simp only [initCol, List.getElem?_map, hσ, Option.map_some]
  obtain ⟨hgs, _⟩ := colStep_iter_get N P s J (initCol N s (prep N P s)) k σ _ hσ hg0
  refine ⟨((colStep N P s)^[J] (initCol N s (prep N P s))).gs.map fun g => g.scalePrev * (prep N P s).nrm, ?_, ?_⟩
  · simp only [minres, List.getElem?_zipWith, List.getElem?_map, hs, Option.map_some, hcol]
  · simp only [List.getElem?_map, hgs, Option.map_some, hiters]
    rfl

end out
end LinOp.C11
