/-
C11 — helper lemmas about the MINRES / CIQ model.
-/
import LinOp.C11.Model
import LinOp.Core.Bridge
import Mathlib.Algebra.Order.Field.Basic
import Mathlib.Algebra.BigOperators.Ring.Finset
import Mathlib.Tactic.FieldSimp
import Mathlib.Tactic.Ring
import Mathlib.Tactic.LinearCombination

namespace LinOp.C11

/-! ### rotation block -/

theorem rotateN_add (as : List TupleAssign) (a b : Nat) (e : Env) :
    rotateN as (a + b) e = rotateN as b (rotateN as a e) := by
  induction a generalizing e with
  | zero => simp [rotateN]
  | succ a ih => rw [Nat.succ_add]; simp only [rotateN]; exact ih _

theorem rotateN_period (as : List TupleAssign) (p : Nat) (e : Env) (h : rotateN as p e = e) (m : Nat) :
    rotateN as (p * m) e = e := by
  induction m with
  | zero => simp [rotateN]
  | succ m ih => rw [Nat.mul_succ, rotateN_add, ih, h]

/-- A property that holds along one period holds forever. -/
theorem rotateN_forall (as : List TupleAssign) (p : Nat) (hp : 0 < p) (e : Env) (h : rotateN as p e = e)
    (Q : Env → Prop) (hQ : ∀ r, r < p → Q (rotateN as r e)) (k : Nat) : Q (rotateN as k e) := by
  have hk : k = p * (k / p) + k % p := (Nat.div_add_mod k p).symm
  rw [hk, rotateN_add, rotateN_period as p e h]
  exact hQ _ (Nat.mod_lt _ hp)

/-! ### shifted names (`zvec_*`, `qvec_*`) -/

/-- The live Lanczos names denote pairwise different buffers, all older than the next allocation. -/
def ShiftOK (st : Env × Nat) : Prop :=
  ∃ a b p c q : Nat, st.1 = [("zvec_prev2", a), ("zvec_prev1", b), ("prod", p), ("qvec_prev1", c), ("qvec_curr", q)] ∧
    a ≠ b ∧ b ≠ c ∧ a ≠ c ∧ a < st.2 ∧ b < st.2 ∧ c < st.2

theorem allocN_inv (as : List TupleAssign) (fresh : List String)
    (hstep : ∀ st, ShiftOK st → ShiftOK (allocStep as fresh st)) (k : Nat) (st : Env × Nat) (h : ShiftOK st) :
    ShiftOK (allocN as fresh k st) := by
  induction k generalizing st with
  | zero => exact h
  | succ k ih => exact ih _ (hstep st h)

theorem ShiftOK.get {st : Env × Nat} (h : ShiftOK st) :
    st.1.get "zvec_prev2" ≠ st.1.get "zvec_prev1" ∧ st.1.get "zvec_prev1" ≠ st.1.get "qvec_prev1" ∧
    st.1.get "zvec_prev2" ≠ st.1.get "qvec_prev1" ∧
    st.1.get "zvec_prev2" < st.2 ∧ st.1.get "zvec_prev1" < st.2 ∧ st.1.get "qvec_prev1" < st.2 := by
  obtain ⟨a, b, p, c, q, he, h1, h2, h3, h4, h5, h6⟩ := h
  have ea : st.1.get "zvec_prev2" = a := by rw [he]; rfl
  have eb : st.1.get "zvec_prev1" = b := by rw [he]; rfl
  have ec : st.1.get "qvec_prev1" = c := by rw [he]; rfl
  rw [ea, eb, ec]
  exact ⟨h1, h2, h3, h4, h5, h6⟩

/-! ### dot products -/

section field
variable {α : Type} [Field α]

theorem dot_eq_sum {n : Nat} (u v : Vec α n) : dot u v = ∑ i, u i * v i := by
  unfold dot; exact sumFin_eq_sum _ _

theorem dot_zero_left {n : Nat} (v : Vec α n) : dot (fun _ => (0 : α)) v = 0 := by
  rw [dot_eq_sum]; simp

theorem dot_add_smul_left {n : Nat} (u w v : Vec α n) (c : α) :
    dot (fun i => u i + c * w i) v = dot u v + c * dot w v := by
  simp only [dot_eq_sum, add_mul, Finset.sum_add_distrib, Finset.mul_sum, mul_assoc]

theorem dot_neg_left {n : Nat} (u v : Vec α n) : dot (fun i => -u i) v = -dot u v := by
  simp only [dot_eq_sum, neg_mul, Finset.sum_neg_distrib]

end field
end LinOp.C11
