-- C18: the sampler / root source text that LinOp/C18/Model.lean and ModelRoots.lean mirror (reviewed by hand when the
-- model was written; see the file headers of the two model files for the correspondence).  NOT regenerated: the theorem
-- `gen_sampler_facts` compares the regenerated LinOp/Generated/C18Facts.lean with this list.
namespace LinOp.C18

def expectedFacts : List (String × String) := [
  ("base.zero_mean_mvn_samples", "if settings.ciq_samples.on(): base_samples = torch.randn(*self.batch_shape, self.size(-1), num_samples, dtype=self.dtype, device=self.device) base_samples = base_samples.permute(-1, *range(self.dim() - 1)).contiguous() base_samples = base_samples.unsqueeze(-1) solves, weights, _, _ = contour_integral_quad(self.evaluate_kernel(), base_samples, inverse=False, num_contour_quadrature=settings.num_contour_quadrature.value()) return (solves * weights).sum(0).squeeze(-1) else: if self.size()[-2:] == torch.Size([1, 1]): covar_root = self.to_dense().sqrt() else: covar_root = self.root_decomposition().root base_samples = torch.randn(*self.batch_shape, covar_root.size(-1), num_samples, dtype=self.dtype, device=self.device) samples = covar_root.matmul(base_samples).permute(-1, *range(self.dim() - 1)).contiguous() ;; return samples"),
  ("scale_columns", "if isinstance(evecs, DenseLinearOperator) or torch.is_tensor(evecs): return evecs * scale.unsqueeze(-2) ;; return evecs.matmul(DiagLinearOperator(scale))"),
  ("diag.zero_mean_mvn_samples", "base_samples = torch.randn(num_samples, *self._diag.shape, dtype=self.dtype, device=self.device) ;; return base_samples * self._diag.sqrt()"),
  ("identity.zero_mean_mvn_samples", "base_samples = torch.randn(num_samples, *self.shape[:-1], dtype=self.dtype, device=self.device) ;; return base_samples"),
  ("block.zero_mean_mvn_samples", "res = self.base_linear_op.zero_mean_mvn_samples(num_samples) ;; res = self._remove_batch_dim(res.unsqueeze(-1)).squeeze(-1) ;; return res"),
  ("blockdiag.remove_batch_dim", "shape = list(other.shape) ;; del shape[-3] ;; shape[-2] *= self.num_blocks ;; other = other.reshape(*shape) ;; return other"),
  ("blockinterleaved.remove_batch_dim", "other = other.transpose(-2, -3).contiguous() ;; shape = list(other.shape) ;; del shape[-2] ;; shape[-2] *= self.num_blocks ;; other = other.reshape(*shape) ;; return other"),
  ("sumbatch.remove_batch_dim", "return other.sum(-3)"),
  ("psdsum.zero_mean_mvn_samples", "return sum((linear_op.zero_mean_mvn_samples(num_samples) for linear_op in self.linear_ops))"),
  ("interp.zero_mean_mvn_samples", "base_samples = self.base_linear_op.zero_mean_mvn_samples(num_samples) ;; batch_iter = tuple(range(1, base_samples.dim())) ;; base_samples = base_samples.permute(*batch_iter, 0) ;; res = left_interp(self.left_interp_indices, self.left_interp_values, base_samples).contiguous() ;; batch_iter = tuple(range(res.dim() - 1)) ;; return res.permute(-1, *batch_iter).contiguous()"),
  ("chol._root_decomposition", "return self.root._transpose_nonbatch() if self.upper else self.root"),
  ("chol.root_decomposition", "if self.upper: return RootLinearOperator(self.root._transpose_nonbatch()) ;; return self"),
  ("batchrepeat._root_decomposition", "return self.base_linear_op._root_decomposition().repeat(*self.batch_repeat, 1, 1)"),
  ("constmul.root_decomposition", "@cached(name='root_decomposition') if torch.all(self._constant >= 0): base_root = self.base_linear_op.root_decomposition(method=method).root return RootLinearOperator(ConstantMulLinearOperator(base_root, self._constant ** 0.5)) ;; return super().root_decomposition(method=method)"),
  ("kron.root_decomposition", "@cached(name='root_decomposition') if self.shape[-1] <= settings.max_cholesky_size.value(): return super().root_decomposition(method=method) ;; root_list = [lt.root_decomposition(method=method).root for lt in self.linear_ops] ;; kronecker_root = KroneckerProductLinearOperator(*root_list) ;; return RootLinearOperator(kronecker_root)"),
  ("sumkron._root_decomposition", "inner_mat = self._sum_formulation ;; lt2_root = KroneckerProductLinearOperator(*[lt.root_decomposition().root for lt in self.linear_ops[1].linear_ops]) ;; inner_mat_root = inner_mat.root_decomposition().root ;; root = lt2_root.matmul(inner_mat_root) ;; return root"),
  ("root.root_decomposition", "return self"),
  ("kronadd._root_decomposition[const]", "if self._diag_is_constant: evals, q_matrix = self.linear_op.diagonalization() ;; updated_evals = DiagLinearOperator((evals + self.diag_tensor._diagonal()).pow(0.5)) ;; return MatmulLinearOperator(q_matrix, updated_evals)"),
  ("ciq.precond_and_solves", "preconditioner, preconditioner_lt, _ = linear_op._preconditioner() ;; def sqrt_precond_matmul(rhs): if preconditioner_lt is not None: solves, weights, _, _ = contour_integral_quad(preconditioner_lt, rhs, inverse=False) return (solves * weights).sum(0) else: return rhs ;; rhs = sqrt_precond_matmul(rhs) ;; with torch.no_grad(): solves = minres(lambda v: linear_op._matmul(v), rhs, value=-1, shifts=shifts, preconditioner=preconditioner) ;; no_shift_solves = solves[0] ;; solves = solves[1:] ;; if not inverse: solves = linear_op._matmul(solves) ;; return (solves, weights, no_shift_solves, shifts)")]

end LinOp.C18
