import LinOp.C18.Model
/-
C18 (extension 5) — model of the ROOTS that the class-specific `root_decomposition` / `_root_decomposition`
overrides hand to the base-class sampler `generic`, of the batch index arithmetic of `BatchRepeat`, and of the
shape arithmetic of the non-generic samplers.  Core Lean only.

  CholLinearOperator._root_decomposition / root_decomposition : `root` (lower) or `root._transpose_nonbatch()` (upper) → `cholRoot`
  `_scale_columns(evecs, evals.clamp_min(0).sqrt())` (symeig / diagonalization / svd roots) and
  KroneckerProductAddedDiag (constant diagonal) `MatmulLinearOperator(q_matrix, Diag((evals + c).pow(0.5)))`   → `scaleCols`
  BatchRepeat `_root_decomposition().repeat(*batch_repeat, 1, 1)`                                              → `repeatIdx`, `repeatShape`
  SumKronecker `_root_decomposition`  `lt2_root.matmul(inner_mat_root)`                                          → `mmul`
  Diag sampler noise `randn(k, *batch, n)`; CIQ sampler noise `randn(*batch, n, k).permute(-1, …).unsqueeze(-1)`,
  `(solves * weights).sum(0).squeeze(-1)`                                                                      → `diagShape`, `ciqNoiseShape`, `ciqShape`
-/
namespace LinOp.C18
open LinOp

section roots
variable {α : Type} [Add α] [Zero α] [Mul α]

/-- `CholLinearOperator`: the root handed to the sampler is the triangular factor itself (lower orientation,
`A = L Lᵀ`) or its transpose (upper orientation, `A = Rᵀ R`). -/
def cholRoot {n : Nat} (upper : Bool) (T : Mat α n n) : Mat α n n :=
  if upper then fun i j => T j i else T

/-- `_scale_columns(U, s)` = `U · diag(s)`; also `MatmulLinearOperator(Q, DiagLinearOperator(s))`. -/
def scaleCols {n m : Nat} (U : Mat α n m) (s : Fin m → α) : Mat α n m := fun i j => U i j * s j

/-- Dense product (`lt2_root.matmul(inner_mat_root)` of SumKronecker). -/
def mmul {n m p : Nat} (A : Mat α n m) (B : Mat α m p) : Mat α n p :=
  tab fun i j => sumFin m fun l => A i l * B l j

/-- `ConstantMulLinearOperator.root_inv_decomposition` (since /repo c4c33aa): the base operator's inverse root scaled by
`c ** -0.5` (`ConstantMulLinearOperator(base_inv_root, c ** -0.5)`), mirroring `constMulRoot`. -/
def constMulRootInv {n m : Nat} (isc : α) (R0 : Mat α n m) : Mat α n m := constMulRoot isc R0

end roots

/-! ### `torch.Tensor.repeat` on the batch dimensions (BatchRepeat roots). -/

/-- Left-pad a shape with 1s to length `len` (torch aligns `repeat` arguments to the right). -/
def padLeft (l : List Nat) (len : Nat) : List Nat := List.replicate (len - l.length) 1 ++ l

/-- Batch shape after `.repeat(*reps, 1, 1)`: `bᵢ · rᵢ` (base right-aligned, padded with 1). -/
def repeatShape (base reps : List Nat) : List Nat := List.zipWith (· * ·) (padLeft base reps.length) reps

/-- Which base member an output member reads: `iᵈ % bᵈ` in every (padded) batch dimension. -/
def repeatIdx (basePadded idx : List Nat) : List Nat := List.zipWith (· % ·) idx basePadded

/-- Row-major multi-index of a flat member index; shapes and indices are REVERSED lists (last dim first). -/
def unravelRev : List Nat → Nat → List Nat
  | [], _ => []
  | d :: ds, f => (f % d) :: unravelRev ds (f / d)

/-- Flat index of a reversed multi-index in a reversed shape. -/
def ravelRev : List Nat → List Nat → Nat
  | d :: ds, i :: is => i + d * ravelRev ds is
  | _, _ => 0

/-- The base member (flat, row-major over the padded base batch shape) that output member `f` (flat, row-major over
the repeated batch shape) of a BatchRepeat root reads. -/
def repeatMember (base reps : List Nat) (f : Nat) : Nat :=
  let bp := (padLeft base reps.length).reverse
  let out := (repeatShape base reps).reverse
  ravelRev bp ((repeatIdx bp (unravelRev out f)))

/-! ### Shapes of the specialised samplers. -/

/-- `DiagLinearOperator.zero_mean_mvn_samples`: `randn(k, *batch, n) * diag.sqrt()`. -/
def diagShape (k : Nat) (batch : List Nat) (n : Nat) : List Nat := k :: batch ++ [n]

/-- CIQ sampler noise: `randn(*batch, n, k).permute(-1, 0, …).unsqueeze(-1)`. -/
def ciqNoiseShape (batch : List Nat) (n k : Nat) : List Nat := lastFirst (batch ++ [n, k]) ++ [1]

/-- CIQ sampler output: solves `(Q, *noise shape)`, `.sum(0)` drops the quadrature dimension, `.squeeze(-1)` the last
(which is 1). -/
def ciqShape (batch : List Nat) (n k Q : Nat) : List Nat :=
  ((Q :: ciqNoiseShape batch n k).tail).dropLast

end LinOp.C18
