import Mathlib.Data.Matrix.Basic
import Mathlib.Data.Matrix.Mul
import Mathlib.Data.Matrix.Diagonal
import Mathlib.Algebra.BigOperators.Ring.Finset
import Mathlib.Algebra.Field.Basic
import Mathlib.Tactic.Ring
/-!
C18 helper lemmas: spectral calculus with an orthonormal eigenbasis `U` (`Uᵀ U = U Uᵀ = 1`).
`conjU U d = U diag(d) Uᵀ`; products, sums and inverses of such matrices act on the diagonal.
Used for the contour-integral (CIQ) sampler: `R = Σ_q w_q K (s_q I − K)⁻¹ = U diag(f(λ)) Uᵀ`.
-/
namespace LinOp.C18
open Matrix

variable {α : Type} [Field α] {n : Nat}

/-- `U diag(d) Uᵀ`. -/
def conjU (U : Matrix (Fin n) (Fin n) α) (d : Fin n → α) : Matrix (Fin n) (Fin n) α :=
  U * diagonal d * Uᵀ

theorem conjU_apply (U : Matrix (Fin n) (Fin n) α) (d : Fin n → α) (i j : Fin n) :
    conjU U d i j = ∑ l, U i l * d l * U j l := by
  unfold conjU
  rw [Matrix.mul_apply]
  exact Finset.sum_congr rfl fun l _ => by rw [Matrix.mul_diagonal, Matrix.transpose_apply]

theorem conjU_mul {U : Matrix (Fin n) (Fin n) α} (hU : Uᵀ * U = 1) (d e : Fin n → α) :
    conjU U d * conjU U e = conjU U (fun i => d i * e i) := by
  unfold conjU
  calc U * diagonal d * Uᵀ * (U * diagonal e * Uᵀ)
      = U * diagonal d * (Uᵀ * U) * diagonal e * Uᵀ := by simp only [Matrix.mul_assoc]
    _ = U * (diagonal d * diagonal e) * Uᵀ := by rw [hU, Matrix.mul_one]; simp only [Matrix.mul_assoc]
    _ = U * diagonal (fun i => d i * e i) * Uᵀ := by rw [diagonal_mul_diagonal]

theorem conjU_transpose (U : Matrix (Fin n) (Fin n) α) (d : Fin n → α) : (conjU U d)ᵀ = conjU U d := by
  unfold conjU
  rw [Matrix.transpose_mul, Matrix.transpose_mul, Matrix.transpose_transpose, diagonal_transpose, Matrix.mul_assoc]

theorem conjU_const {U : Matrix (Fin n) (Fin n) α} (hU' : U * Uᵀ = 1) (c : α) :
    conjU U (fun _ => c) = c • (1 : Matrix (Fin n) (Fin n) α) := by
  unfold conjU
  rw [← Matrix.smul_one_eq_diagonal, Matrix.mul_smul, Matrix.mul_one, Matrix.smul_mul, hU']

theorem conjU_sub (U : Matrix (Fin n) (Fin n) α) (d e : Fin n → α) :
    conjU U d - conjU U e = conjU U (fun i => d i - e i) := by
  ext i j
  simp only [Matrix.sub_apply, conjU_apply, ← Finset.sum_sub_distrib]
  exact Finset.sum_congr rfl fun l _ => by ring

theorem conjU_sum_smul {Q : Nat} (U : Matrix (Fin n) (Fin n) α) (w : Fin Q → α) (d : Fin Q → Fin n → α) :
    ∑ q, w q • conjU U (d q) = conjU U (fun i => ∑ q, w q * d q i) := by
  ext i j
  simp only [Matrix.sum_apply, Matrix.smul_apply, smul_eq_mul, conjU_apply, Finset.mul_sum, Finset.sum_mul]
  rw [Finset.sum_comm]
  exact Finset.sum_congr rfl fun l _ => Finset.sum_congr rfl fun q _ => by ring

/-- The inverse of `s I − U diag(λ) Uᵀ` is `U diag(1/(s − λ)) Uᵀ` (unique: any right inverse equals it). -/
theorem shifted_inverse_unique {U : Matrix (Fin n) (Fin n) α} (hU : Uᵀ * U = 1) (hU' : U * Uᵀ = 1)
    (lam : Fin n → α) (s : α) (hs : ∀ i, s - lam i ≠ 0) (M : Matrix (Fin n) (Fin n) α)
    (hM : (s • (1 : Matrix (Fin n) (Fin n) α) - conjU U lam) * M = 1) :
    M = conjU U (fun i => (s - lam i)⁻¹) := by
  have h1 : s • (1 : Matrix (Fin n) (Fin n) α) - conjU U lam = conjU U (fun i => s - lam i) := by
    rw [← conjU_const hU' s, conjU_sub]
  have h2 : conjU U (fun i => (s - lam i)⁻¹) * conjU U (fun i => s - lam i) = 1 := by
    rw [conjU_mul hU]
    have : (fun i => (s - lam i)⁻¹ * (s - lam i)) = fun _ : Fin n => (1 : α) := by
      funext i; exact inv_mul_cancel₀ (hs i)
    rw [this, conjU_const hU', one_smul]
  calc M = (conjU U (fun i => (s - lam i)⁻¹) * conjU U (fun i => s - lam i)) * M := by rw [h2, Matrix.one_mul]
    _ = conjU U (fun i => (s - lam i)⁻¹) * ((s • (1 : Matrix (Fin n) (Fin n) α) - conjU U lam) * M) := by
        rw [h1, Matrix.mul_assoc]
    _ = conjU U (fun i => (s - lam i)⁻¹) := by rw [hM, Matrix.mul_one]

/-- The CIQ quadrature operator in the eigenbasis: `Σ_q w_q K (s_q I − K)⁻¹ = U diag(f(λ)) Uᵀ` with the scalar
rule `f(λ) = Σ_q w_q λ / (s_q − λ)`. -/
theorem ciq_operator_spectral {Q : Nat} {U : Matrix (Fin n) (Fin n) α} (hU : Uᵀ * U = 1) (hU' : U * Uᵀ = 1)
    (lam : Fin n → α) (s w : Fin Q → α) (hs : ∀ q i, s q - lam i ≠ 0)
    (M : Fin Q → Matrix (Fin n) (Fin n) α)
    (hM : ∀ q, (s q • (1 : Matrix (Fin n) (Fin n) α) - conjU U lam) * M q = 1) :
    ∑ q, w q • (conjU U lam * M q) = conjU U (fun i => ∑ q, w q * (lam i / (s q - lam i))) := by
  have : ∀ q, conjU U lam * M q = conjU U (fun i => lam i / (s q - lam i)) := by
    intro q
    rw [shifted_inverse_unique hU hU' lam (s q) (hs q) (M q) (hM q), conjU_mul hU]
    congr 1
    funext i
    exact (div_eq_mul_inv _ _).symm
  simp only [this]
  exact conjU_sum_smul U w _

end LinOp.C18
