import LinOp.Core.Parse
import LinOp.C18.Model
import LinOp.C18.ModelRoots
/-! Line-protocol driver for the C18 sampler-layout model.  Scalars are exact rationals.
  generic n m k R Z | diag n k sd Z | blockDiag nb n k X | blockInterleaved nb n k X | sumBatch nb n k X
  interp nBase r q k IDX VAL X       (X : k rows of the base draws; for block ops a row lists (b, r) row-major) -/
open LinOp LinOp.C18 LinOp.Parse

def getM (a : Array (Array Rat)) (n m : Nat) : Mat Rat n m := Mat.ofArrays n m a

def out {n m : Nat} (A : Mat Rat n m) : String := showMat A.toLists

def run (line : String) : String :=
  match words line with
  | ["generic", n, m, k, r, z] =>
    match n.toNat?, m.toNat?, k.toNat?, parseMat? r, parseMat? z with
    | some n, some m, some k, some r, some z => out (generic (getM r n m) (getM z m k))
    | _, _, _, _, _ => "bad-op"
  | ["diag", n, k, sd, z] =>
    match n.toNat?, k.toNat?, parseRats? sd, parseMat? z with
    | some n, some k, some sd, some z =>
      let sda := sd.toArray
      out (diag (fun i : Fin n => sda[i.1]!) (getM z k n))
    | _, _, _, _ => "bad-op"
  | ["constMulRoot", n, m, sc, r] =>
    match n.toNat?, m.toNat?, parseRats? sc, parseMat? r with
    | some n, some m, some [sc], some r => out (constMulRoot sc (getM r n m))
    | _, _, _, _ => "bad-op"
  | ["constMulRootInv", n, m, isc, r] =>
    match n.toNat?, m.toNat?, parseRats? isc, parseMat? r with
    | some n, some m, some [isc], some r => out (constMulRootInv isc (getM r n m))
    | _, _, _, _ => "bad-op"
  | [op, nb, n, k, x] =>
    match nb.toNat?, n.toNat?, k.toNat?, parseMat? x with
    | some nb, some n, some k, some x =>
      let xf : Fin k → Fin nb → Fin n → Rat := fun s b r => (x[s.1]!)[b.1 * n + r.1]!
      if op = "blockDiag" then (if h : 0 < n then out (blockDiag xf h) else "bad-op")
      else if op = "blockInterleaved" then (if h : 0 < nb then out (blockInterleaved xf h) else "bad-op")
      else if op = "sumBatch" then out (sumBatch xf)
      else "bad-op"
    | _, _, _, _ => "bad-op"
  | ["interp", nBase, r, q, k, idx, val, x] =>
    match nBase.toNat?, r.toNat?, q.toNat?, k.toNat?, parseMat? idx, parseMat? val, parseMat? x with
    | some nBase, some r, some q, some k, some idx, some val, some x =>
      if h : 0 < nBase then
        let idxf : Fin r → Fin q → Fin nBase := fun i c =>
          ⟨((idx[i.1]!)[c.1]!).num.toNat % nBase, Nat.mod_lt _ h⟩
        out (interp idxf (getM val r q) (getM x k nBase))
      else "bad-op"
    | _, _, _, _, _, _, _ => "bad-op"
  | ["ciq", q, n, k, w, sols] =>
    -- sols: Q*k rows (q-major), each of n entries
    match q.toNat?, n.toNat?, k.toNat?, parseRats? w, parseMat? sols with
    | some q, some n, some k, some w, some sols =>
      let wa := w.toArray
      out (ciq (Q := q) (fun i => wa[i.1]!) (fun qi => getM (sols.extract (qi.1 * k) (qi.1 * k + k)) k n))
    | _, _, _, _, _ => "bad-op"
  | ["kron", n1, m1, n2, m2, a, b] =>
    match n1.toNat?, m1.toNat?, n2.toNat?, m2.toNat?, parseMat? a, parseMat? b with
    | some n1, some m1, some n2, some m2, some a, some b =>
      if h : 0 < n2 then if h' : 0 < m2 then out (kronFlat (getM a n1 m1) (getM b n2 m2) h h') else "bad-op" else "bad-op"
    | _, _, _, _, _, _ => "bad-op"
  | ["cholRoot", n, upper, t] =>
    match n.toNat?, parseMat? t with
    | some n, some t => out (cholRoot (upper = "1") (getM t n n))
    | _, _ => "bad-op"
  | ["scaleCols", n, m, sv, u, _] =>
    match n.toNat?, m.toNat?, parseRats? sv, parseMat? u with
    | some n, some m, some sv, some u =>
      let sa := sv.toArray
      out (scaleCols (getM u n m) (fun j : Fin m => sa[j.1]!))
    | _, _, _, _ => "bad-op"
  | ["mmul", n, m, p, a, b] =>
    match n.toNat?, m.toNat?, p.toNat?, parseMat? a, parseMat? b with
    | some n, some m, some p, some a, some b => out (mmul (getM a n m) (getM b m p))
    | _, _, _, _, _ => "bad-op"
  | ["repeatMember", base, reps, fs] =>
    -- for every flat output member f in fs: the flat base member it reads
    let pl := fun (s : String) => if s = "-" then some [] else (s.splitOn ",").mapM String.toNat?
    match pl base, pl reps, pl fs with
    | some base, some reps, some fs => ",".intercalate (fs.map fun f => toString (repeatMember base reps f))
    | _, _, _ => "bad-op"
  | ["repeatShape", base, reps] =>
    let pl := fun (s : String) => if s = "-" then some [] else (s.splitOn ",").mapM String.toNat?
    match pl base, pl reps with
    | some base, some reps => ",".intercalate ((repeatShape base reps).map toString)
    | _, _ => "bad-op"
  | ["samplerShape", kind, batch, n, k, q] =>
    let pl := fun (s : String) => if s = "-" then some [] else (s.splitOn ",").mapM String.toNat?
    match pl batch, n.toNat?, k.toNat?, q.toNat? with
    | some batch, some n, some k, some q =>
      let l := if kind = "diag" then diagShape k batch n else if kind = "ciq" then ciqShape batch n k q
               else if kind = "ciqNoise" then ciqNoiseShape batch n k else []
      ",".intercalate (l.map toString)
    | _, _, _, _ => "bad-op"
  | ["shape", rb, batch, n, m, m', k] =>
    -- batch shapes as comma lists, "-" = empty
    let pl := fun (s : String) => if s = "-" then some [] else (s.splitOn ",").mapM String.toNat?
    match pl rb, pl batch, n.toNat?, m.toNat?, m'.toNat?, k.toNat? with
    | some rb, some batch, some n, some m, some m', some k =>
      match genericShape rb batch n m m' k with
      | some l => ",".intercalate (l.map toString)
      | none => "none"
    | _, _, _, _, _, _ => "bad-op"
  | _ => "bad-op"

def main : IO Unit := do
  loop (← IO.getStdin) () (fun _ l => ((), run l))
