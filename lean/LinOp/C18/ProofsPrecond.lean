import LinOp.C18.ProofsCIQ
/-!
C18 helper lemmas for the PRECONDITIONED contour-integral sampler.

`contour_integral_quad(K, z)` with an active preconditioner `P` (closure `preconditioner = P⁻¹ ·`, operator
`preconditioner_lt = P`):
  1. `rhs ← sqrt_precond_matmul(z) = S z`, `S` the map of the nested (unpreconditioned) CIQ on `P` (`S Sᵀ ≈ P`);
  2. preconditioned msMINRES (`value = -1`, shifts `s_q`, preconditioner `P⁻¹`) applies `N_q = (s_q P − K)⁻¹`;
  3. `solves ← K N_q rhs`; the sampler returns `Σ_q w_q · solves_q`.
With `V = P^{1/2}` (symmetric), `W = V⁻¹` and `M = W K W = U diag(μ) Uᵀ` the operator is
`Σ_q w_q K N_q = V · U diag(f(μ)) Uᵀ · W`, the SAME scalar rule `f(μ) = Σ_q w_q μ/(s_q − μ)` evaluated on the spectrum of
the preconditioned matrix `P^{-1/2} K P^{-1/2}`.
-/
namespace LinOp.C18
open Matrix

variable {α : Type} [Field α] {n : Nat}

/-- The inverse of a symmetric matrix is symmetric. -/
theorem inv_symm_of_symm {V W : Matrix (Fin n) (Fin n) α} (hVW : V * W = 1) (hWV : W * V = 1) (hW : Wᵀ = W) :
    Vᵀ = V := by
  calc Vᵀ = Vᵀ * (W * V) := by rw [hWV, Matrix.mul_one]
    _ = (W * V)ᵀ * V := by rw [Matrix.transpose_mul, hW, Matrix.mul_assoc]
    _ = V := by rw [hWV, Matrix.transpose_one, Matrix.one_mul]

/-- Any right inverse of `s P − K` with `P = V V`, `K = V M V`, `M = U diag(μ) Uᵀ` is `W U diag(1/(s − μ)) Uᵀ W`. -/
theorem precond_shifted_inverse {U V W : Matrix (Fin n) (Fin n) α} (hU : Uᵀ * U = 1) (hU' : U * Uᵀ = 1)
    (hVW : V * W = 1) (hWV : W * V = 1) (mu : Fin n → α) (s : α) (hs : ∀ i, s - mu i ≠ 0)
    (N : Matrix (Fin n) (Fin n) α)
    (hN : (s • (V * V) - V * conjU U mu * V) * N = 1) :
    N = W * conjU U (fun i => (s - mu i)⁻¹) * W := by
  have hfac : s • (V * V) - V * conjU U mu * V = V * (s • (1 : Matrix (Fin n) (Fin n) α) - conjU U mu) * V := by
    rw [Matrix.mul_sub, Matrix.sub_mul, Matrix.mul_smul, Matrix.mul_one, Matrix.smul_mul]
  rw [hfac] at hN
  have h1 : (s • (1 : Matrix (Fin n) (Fin n) α) - conjU U mu) * (V * N * V) = 1 := by
    calc (s • (1 : Matrix (Fin n) (Fin n) α) - conjU U mu) * (V * N * V)
        = (W * V) * ((s • (1 : Matrix (Fin n) (Fin n) α) - conjU U mu) * (V * N * V)) := by
          rw [hWV, Matrix.one_mul]
      _ = W * (V * (s • (1 : Matrix (Fin n) (Fin n) α) - conjU U mu) * V * N) * V := by
          simp only [Matrix.mul_assoc]
      _ = 1 := by rw [hN, Matrix.mul_one, hWV]
  have h2 := shifted_inverse_unique hU hU' mu s hs _ h1
  calc N = (W * V) * N * (V * W) := by rw [hWV, hVW, Matrix.one_mul, Matrix.mul_one]
    _ = W * (V * N * V) * W := by simp only [Matrix.mul_assoc]
    _ = W * conjU U (fun i => (s - mu i)⁻¹) * W := by rw [h2]

/-- **The preconditioned CIQ quadrature operator**: `Σ_q w_q K (s_q P − K)⁻¹ = V · U diag(f(μ)) Uᵀ · W`. -/
theorem ciqPrecond_operator {Q : Nat} {U V W : Matrix (Fin n) (Fin n) α} (hU : Uᵀ * U = 1) (hU' : U * Uᵀ = 1)
    (hVW : V * W = 1) (hWV : W * V = 1) (mu : Fin n → α) (s w : Fin Q → α) (hs : ∀ q i, s q - mu i ≠ 0)
    (N : Fin Q → Matrix (Fin n) (Fin n) α)
    (hN : ∀ q, (s q • (V * V) - V * conjU U mu * V) * N q = 1) :
    ∑ q, w q • ((V * conjU U mu * V) * N q)
      = V * conjU U (fun i => ∑ q, w q * (mu i / (s q - mu i))) * W := by
  have hq : ∀ q, (V * conjU U mu * V) * N q = V * conjU U (fun i => mu i / (s q - mu i)) * W := by
    intro q
    have e : (fun i => mu i * (s q - mu i)⁻¹) = fun i => mu i / (s q - mu i) := by
      funext i; exact (div_eq_mul_inv _ _).symm
    rw [precond_shifted_inverse hU hU' hVW hWV mu (s q) (hs q) (N q) (hN q)]
    calc V * conjU U mu * V * (W * conjU U (fun i => (s q - mu i)⁻¹) * W)
        = V * (conjU U mu * ((V * W) * conjU U (fun i => (s q - mu i)⁻¹))) * W := by
          simp only [Matrix.mul_assoc]
      _ = V * conjU U (fun i => mu i / (s q - mu i)) * W := by
          rw [hVW, Matrix.one_mul, conjU_mul hU, e]
  simp only [hq]
  have hsum := conjU_sum_smul U w (fun q i => mu i / (s q - mu i))
  rw [← hsum, Matrix.mul_sum, Matrix.sum_mul]
  refine Finset.sum_congr rfl fun q _ => ?_
  rw [Matrix.mul_smul, Matrix.smul_mul]

/-- `(V C W S)(V C W S)ᵀ = V C² V` for `C = U diag(F) Uᵀ`, `W = V⁻¹` symmetric and `S` any root of `P = V V`. -/
theorem sandwich_cov {U V W S : Matrix (Fin n) (Fin n) α} (hU : Uᵀ * U = 1)
    (hVW : V * W = 1) (hWV : W * V = 1) (hW : Wᵀ = W) (F : Fin n → α) (hS : S * Sᵀ = V * V) :
    (V * conjU U F * W * S) * (V * conjU U F * W * S)ᵀ = V * conjU U (fun i => F i * F i) * V := by
  have hV : Vᵀ = V := inv_symm_of_symm hVW hWV hW
  calc (V * conjU U F * W * S) * (V * conjU U F * W * S)ᵀ
      = V * conjU U F * W * (S * Sᵀ) * W * conjU U F * V := by
        simp only [Matrix.transpose_mul, hW, hV, conjU_transpose, Matrix.mul_assoc]
    _ = V * conjU U F * ((W * V) * (V * W)) * conjU U F * V := by
        rw [hS]; simp only [Matrix.mul_assoc]
    _ = V * (conjU U F * conjU U F) * V := by
        rw [hWV, hVW, Matrix.mul_one, Matrix.mul_one]; simp only [Matrix.mul_assoc]
    _ = V * conjU U (fun i => F i * F i) * V := by rw [conjU_mul hU]

end LinOp.C18
