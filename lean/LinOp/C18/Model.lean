import LinOp.Core.Basic
/-
C18 — model of the samplers `zero_mean_mvn_samples` (core Lean only).

Every sampler is a function of the noise it draws with `torch.randn`; the model mirrors the layout
code of each specialised sampler.  `k` = number of samples; outputs are samples-first `(k, n)`.

  base class   : covar_root.matmul(randn(m, k)).permute(-1, …)              → `generic`
  Diag         : randn(k, n) * diag.sqrt()                                   → `diag`
  Identity     : randn(k, n)                                                 → `identity`
  Block*       : base.zero_mean_mvn_samples(k) : (k, nb, n)  then `_remove_batch_dim`
                 BlockDiag        reshape             i = b*n + r           → `blockDiag`
                 BlockInterleaved transpose+reshape   i = r*nb + b          → `blockInterleaved`
                 SumBatch         sum(-3)                                    → `sumBatch`
  PsdSum       : sum of the parts' draws                                     → `psdSum` (= sumBatch over parts)
  Interpolated : left_interp(idx, val, base draws)                           → `interp`
-/
namespace LinOp.C18
open LinOp

variable {α : Type} [Add α] [Zero α] [Mul α]

/-- Base-class sampler: `(R Z)ᵀ`, `R : n × m` the root, `Z : m × k` the noise. -/
def generic {n m k : Nat} (R : Mat α n m) (Z : Mat α m k) : Mat α k n :=
  tab fun s i => sumFin m fun j => R i j * Z j s

/-- `DiagLinearOperator`: noise `(k, n)` times `sqrt(diag)`. -/
def diag {n k : Nat} (sd : Fin n → α) (Z : Mat α k n) : Mat α k n := fun s i => Z s i * sd i

/-- `IdentityLinearOperator`: the noise itself. -/
def identity {n k : Nat} (Z : Mat α k n) : Mat α k n := Z

/-- `BlockDiagLinearOperator._remove_batch_dim` on the draws of the base: `(k, nb, n) → (k, nb*n)`,
row-major reshape. -/
def blockDiag {nb n k : Nat} (x : Fin k → Fin nb → Fin n → α) (hn : 0 < n) : Mat α k (nb * n) :=
  fun s i => x s ⟨i.1 / n, (Nat.div_lt_iff_lt_mul hn).2 i.2⟩ ⟨i.1 % n, Nat.mod_lt _ hn⟩

/-- `BlockInterleavedLinearOperator._remove_batch_dim`: transpose(-2,-3) then reshape: `i = r*nb + b`. -/
def blockInterleaved {nb n k : Nat} (x : Fin k → Fin nb → Fin n → α) (hb : 0 < nb) : Mat α k (n * nb) :=
  fun s i => x s ⟨i.1 % nb, Nat.mod_lt _ hb⟩ ⟨i.1 / nb, (Nat.div_lt_iff_lt_mul hb).2 i.2⟩

/-- `SumBatchLinearOperator._remove_batch_dim` = `sum(-3)`; also `PsdSumLinearOperator` (sum of parts). -/
def sumBatch {nb n k : Nat} (x : Fin k → Fin nb → Fin n → α) : Mat α k n :=
  fun s i => sumFin nb fun b => x s b i

/-- `InterpolatedLinearOperator`: `left_interp(idx, val, base draws)`; `idx : r × q` into the base. -/
def interp {nBase r q k : Nat} (idx : Fin r → Fin q → Fin nBase) (val : Fin r → Fin q → α)
    (x : Mat α k nBase) : Mat α k r :=
  fun s i => sumFin q fun c => val i c * x s (idx i c)

end LinOp.C18
