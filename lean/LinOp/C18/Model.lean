import LinOp.Core.Basic
/-
C18 — model of the samplers `zero_mean_mvn_samples` (core Lean only).

Every sampler is a function of the noise it draws with `torch.randn`; the model mirrors the layout
code of each specialised sampler.  `k` = number of samples; outputs are samples-first `(k, n)`.

  base class   : covar_root.matmul(randn(m, k)).permute(-1, …)              → `generic`
  Diag         : randn(k, n) * diag.sqrt()                                   → `diag`
  Identity     : randn(k, n)                                                 → `identity`
  Block*       : base.zero_mean_mvn_samples(k) : (k, nb, n)  then `_remove_batch_dim`
                 BlockDiag        reshape             i = b*n + r           → `blockDiag`
                 BlockInterleaved transpose+reshape   i = r*nb + b          → `blockInterleaved`
                 SumBatch         sum(-3)                                    → `sumBatch`
  PsdSum       : sum of the parts' draws                                     → `psdSum` (= sumBatch over parts)
  Interpolated : left_interp(idx, val, base draws)                           → `interp`
-/
namespace LinOp.C18
open LinOp

variable {α : Type} [Add α] [Zero α] [Mul α]

/-- Base-class sampler: `(R Z)ᵀ`, `R : n × m` the root, `Z : m × k` the noise. -/
def generic {n m k : Nat} (R : Mat α n m) (Z : Mat α m k) : Mat α k n :=
  tab fun s i => sumFin m fun j => R i j * Z j s

/-- `DiagLinearOperator`: noise `(k, n)` times `sqrt(diag)`. -/
def diag {n k : Nat} (sd : Fin n → α) (Z : Mat α k n) : Mat α k n := fun s i => Z s i * sd i

/-- `IdentityLinearOperator`: the noise itself. -/
def identity {n k : Nat} (Z : Mat α k n) : Mat α k n := Z

/-- `BlockDiagLinearOperator._remove_batch_dim` on the draws of the base: `(k, nb, n) → (k, nb*n)`,
row-major reshape. -/
def blockDiag {nb n k : Nat} (x : Fin k → Fin nb → Fin n → α) (hn : 0 < n) : Mat α k (nb * n) :=
  fun s i => x s ⟨i.1 / n, (Nat.div_lt_iff_lt_mul hn).2 i.2⟩ ⟨i.1 % n, Nat.mod_lt _ hn⟩

/-- `BlockInterleavedLinearOperator._remove_batch_dim`: transpose(-2,-3) then reshape: `i = r*nb + b`. -/
def blockInterleaved {nb n k : Nat} (x : Fin k → Fin nb → Fin n → α) (hb : 0 < nb) : Mat α k (n * nb) :=
  fun s i => x s ⟨i.1 % nb, Nat.mod_lt _ hb⟩ ⟨i.1 / nb, (Nat.div_lt_iff_lt_mul hb).2 i.2⟩

/-- `SumBatchLinearOperator._remove_batch_dim` = `sum(-3)`; also `PsdSumLinearOperator` (sum of parts). -/
def sumBatch {nb n k : Nat} (x : Fin k → Fin nb → Fin n → α) : Mat α k n :=
  fun s i => sumFin nb fun b => x s b i

/-- `InterpolatedLinearOperator`: `left_interp(idx, val, base draws)`; `idx : r × q` into the base. -/
def interp {nBase r q k : Nat} (idx : Fin r → Fin q → Fin nBase) (val : Fin r → Fin q → α)
    (x : Mat α k nBase) : Mat α k r :=
  fun s i => sumFin q fun c => val i c * x s (idx i c)

/-- Contour-integral sampler (`settings.ciq_samples`): `(solves * weights).sum(0).squeeze(-1)`; `sol q` are the
shifted solves of quadrature point `q` (already multiplied by `K`), samples-first `(k, n)`; `w q` its weight. -/
def ciq {Q n k : Nat} (w : Fin Q → α) (sol : Fin Q → Mat α k n) : Mat α k n :=
  fun s i => sumFin Q fun q => sol q s i * w q

/-- `ConstantMulLinearOperator.root_decomposition`: the base root scaled by `√c`
(`ConstantMulLinearOperator(base_root, c ** 0.5)`), drawn through the base-class sampler. -/
def constMulRoot {n m : Nat} (sc : α) (R : Mat α n m) : Mat α n m := fun i j => R i j * sc

/-- `KroneckerProductLinearOperator.root_decomposition`: Kronecker product of the factor roots, dense layout
`(i₁·n₂ + i₂, j₁·m₂ + j₂)`. -/
def kronFlat {n1 n2 m1 m2 : Nat} (A : Mat α n1 m1) (B : Mat α n2 m2) (h2 : 0 < n2) (hm2 : 0 < m2) :
    Mat α (n1 * n2) (m1 * m2) :=
  fun i j => A ⟨i.1 / n2, (Nat.div_lt_iff_lt_mul h2).2 i.2⟩ ⟨j.1 / m2, (Nat.div_lt_iff_lt_mul hm2).2 j.2⟩
    * B ⟨i.1 % n2, Nat.mod_lt _ h2⟩ ⟨j.1 % m2, Nat.mod_lt _ hm2⟩

/-! ### Shapes.  Torch broadcasting of batch shapes (right-aligned) and the shape arithmetic of the base-class
sampler: `randn(*batch, m, k)`, `root.matmul(noise)`, `permute(-1, 0, …, d-2)`. -/

/-- Broadcast of two reversed shapes. -/
def bcastRev : List Nat → List Nat → Option (List Nat)
  | [], l => some l
  | a :: as, [] => some (a :: as)
  | a :: as, b :: bs =>
    if a = b ∨ b = 1 then (bcastRev as bs).map (a :: ·)
    else if a = 1 then (bcastRev as bs).map (b :: ·) else none

/-- `torch.broadcast_shapes`. -/
def bcast (a b : List Nat) : Option (List Nat) := (bcastRev a.reverse b.reverse).map List.reverse

/-- `t.permute(-1, 0, …, d-2)`: last dimension first. -/
def lastFirst (l : List Nat) : List Nat :=
  match l.reverse with
  | [] => []
  | x :: r => x :: r.reverse

/-- Shape of `root.matmul(randn(*batch, m', k)).permute(-1, …)` for a root of shape `(*rb, n, m)`;
`none` = torch raises (inner sizes differ or batch shapes do not broadcast). -/
def genericShape (rb batch : List Nat) (n m m' k : Nat) : Option (List Nat) :=
  if m = m' then (bcast rb batch).map fun b => lastFirst (b ++ [n, k]) else none

/-- Shape of the block samplers' `_remove_batch_dim` applied to base draws `(k, *batch, nb, n)`. -/
def blockShape (kind : Nat) (k : Nat) (batch : List Nat) (nb n : Nat) : List Nat :=
  k :: batch ++ [if kind = 2 then n else nb * n]   -- 0 BlockDiag, 1 BlockInterleaved, 2 SumBatch

end LinOp.C18
