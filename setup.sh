#!/bin/bash
# Build the Lean project from files on disk only (offline); regenerate the translator outputs first.
set -e
cd "$(dirname "$0")"
export PYTHONPATH="$PWD" PYTHONDONTWRITEBYTECODE=1
/venv/bin/python -W ignore -m harness.generate_all 2>&1 | grep -v -i conda || true
cd lean
lake build 2>&1 | tail -5
echo "setup done"
