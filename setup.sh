#!/bin/bash
# Build the Lean project from files on disk only (offline); regenerate the translator outputs first.
# Only the modules of properties claimed in MANIFEST.json are built here (each check rebuilds what it needs anyway).
cd "$(dirname "$0")"
export PYTHONPATH="$PWD" PYTHONDONTWRITEBYTECODE=1
/venv/bin/python -W ignore -m harness.generate_all 2>&1 | grep -v -i conda || true
targets=$(/venv/bin/python - <<'PY'
import json, os
man = json.load(open("MANIFEST.json"))
t = []
for c in man["checks"]:
    p = c["property_id"]
    t.append(f"LinOp.Properties.{p}")
    if os.path.exists(f"lean/LinOp/{p}/Driver.lean"):
        t.append(f"LinOp.{p}.Driver")
print(" ".join(t))
PY
)
cd lean
lake build $targets 2>&1 | tail -5
echo "setup done"
